#!/bin/bash
cd /verif
for p in "$@"; do
  s=$(date +%s)
  nice -n 10 ./check $p thorough > work/thorough-logs/$p.out 2> work/thorough-logs/$p.err
  rc=$?
  e=$(date +%s)
  echo "$p exit=$rc secs=$((e-s)) $(grep -cE '^VIOLATION' work/thorough-logs/$p.out) violations" >> work/thorough-logs/SUMMARY
  cp evidence/$p.json work/thorough-logs/$p.evidence.json
done
