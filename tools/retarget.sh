#!/bin/sh
# Points a COPY of /verif (e.g. a `vp run` snapshot) at another checkout of eqlog and at its own
# target directory, so that long sensitivity runs can patch that checkout without touching /repo.
#   tools/retarget.sh <repo-path>      (run inside the copy; never in /verif itself)
set -e
here=$(cd "$(dirname "$0")/.." && pwd)
repo=$1
[ "$here" = "/verif" ] && { echo "refusing to retarget /verif itself" >&2; exit 2; }
sed -i "s#/repo/#$repo/#g" "$here/rtsim/Cargo.toml" "$here/buildsim/Cargo.toml" "$here/modelsim/vgen/Cargo.toml"
sed -i "s#target-dir = \"/verif/target\"#target-dir = \"$here/target\"#" "$here/.cargo/config.toml"
echo "retargeted $here -> $repo"
