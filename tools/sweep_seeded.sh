#!/bin/bash
# Applies every seeded change (and, with --mutants, every hand-written mutant) to /repo in turn, runs the
# FIRST check named in its meta.json (the property it was written against) and reverts the patch.
# Only to be run when nothing else uses /repo. Results: work/sweep.log
cd /verif
mkdir -p work
log=work/sweep.log
if [ -n "$(git -C /repo status --porcelain --untracked-files=no)" ]; then echo "refusing: /repo has uncommitted changes"; exit 2; fi
for d in seeded/*/; do
  n=$(basename $d)
  [ -n "$1" ] && [ "$1" != "--all" ] && ! echo "$n" | grep -q "$1" && continue
  prop=$(python3 -c "import json;m=json.load(open('$d/meta.json'));print((m.get('checks') or [m['property']])[0])")
  if ! git -C /repo apply --check /verif/$d/patch.diff 2>/dev/null; then echo "$n $prop does-not-apply" >> $log; continue; fi
  git -C /repo apply /verif/$d/patch.diff
  s=$(date +%s)
  ./check $prop quick > work/sweep-$n.out 2> work/sweep-$n.err; rc=$?
  e=$(date +%s)
  git -C /repo checkout -- .
  echo "$n $prop exit=$rc secs=$((e-s)) $(grep -ac '^VIOLATION' work/sweep-$n.out) violation lines; $(grep -a 'class=' work/sweep-$n.out | head -1 | cut -c1-160)" >> $log
done
echo "sweep finished" >> $log
