//! Worker command line and shard result files, shared by the engines.
//!
//!   <engine> run --prop C08 --tier quick --seed 1 --shard 3 --nshards 16 --out DIR [--runs N] [--key val ...]
//!   <engine> replay FILE
//!
//! A worker owns run indices shard, shard+nshards, ... so results do not depend on worker count
//! or timing. It writes DIR/shard-<i>.json and DIR/shard-<i>.fp (distinct fingerprints, u64 LE).

use crate::json::Json;
use crate::Violation;
use std::collections::{BTreeMap, BTreeSet};
use std::time::Instant;

#[derive(Clone, Debug)]
pub struct WorkerArgs {
    pub prop: String,
    pub tier: String,
    pub seed: u64,
    pub shard: u64,
    pub nshards: u64,
    pub out: String,
    pub extra: BTreeMap<String, String>,
}

pub enum Cmd {
    Run(WorkerArgs),
    Replay { file: String, extra: BTreeMap<String, String> },
}

pub fn parse_args() -> Result<Cmd, String> {
    let args: Vec<String> = std::env::args().skip(1).collect();
    if args.is_empty() {
        return Err("usage: run ...|replay FILE".into());
    }
    let mut kv: BTreeMap<String, String> = BTreeMap::new();
    let mut pos: Vec<String> = Vec::new();
    let mut i = 1;
    while i < args.len() {
        if let Some(k) = args[i].strip_prefix("--") {
            let v = args.get(i + 1).ok_or(format!("missing value for --{k}"))?;
            kv.insert(k.to_string(), v.clone());
            i += 2;
        } else {
            pos.push(args[i].clone());
            i += 1;
        }
    }
    match args[0].as_str() {
        "run" => {
            let take = |kv: &mut BTreeMap<String, String>, k: &str, d: Option<&str>| -> Result<String, String> {
                kv.remove(k)
                    .or(d.map(|s| s.to_string()))
                    .ok_or(format!("missing --{k}"))
            };
            let prop = take(&mut kv, "prop", None)?;
            let tier = take(&mut kv, "tier", Some("quick"))?;
            let seed = take(&mut kv, "seed", Some("1"))?.parse::<u64>().map_err(|e| e.to_string())?;
            let shard = take(&mut kv, "shard", Some("0"))?.parse::<u64>().map_err(|e| e.to_string())?;
            let nshards = take(&mut kv, "nshards", Some("1"))?.parse::<u64>().map_err(|e| e.to_string())?;
            let out = take(&mut kv, "out", None)?;
            Ok(Cmd::Run(WorkerArgs {
                prop,
                tier,
                seed,
                shard,
                nshards,
                out,
                extra: kv,
            }))
        }
        "replay" => {
            let file = pos.first().cloned().ok_or("replay needs a file")?;
            Ok(Cmd::Replay { file, extra: kv })
        }
        other => Err(format!("unknown command {other}")),
    }
}

impl WorkerArgs {
    pub fn get_u64(&self, key: &str, default: u64) -> u64 {
        self.extra
            .get(key)
            .and_then(|s| s.parse::<u64>().ok())
            .unwrap_or(default)
    }
    pub fn get_str<'a>(&'a self, key: &str, default: &'a str) -> &'a str {
        self.extra.get(key).map(|s| s.as_str()).unwrap_or(default)
    }
}

pub const FP_CAP: usize = 100_000;
pub const SAMPLE_CAP: usize = 4;
pub const VIOLATION_CAP: usize = 6;

/// Accumulates what a shard did; written out as JSON at the end.
pub struct ShardStats {
    pub start: Instant,
    pub evaluations: u64,
    pub nontrivial_runs: u64,
    pub steps: u64,
    pub first_seed: Option<u64>,
    pub last_seed: u64,
    pub fingerprints: BTreeSet<u64>,
    pub fp_saturated: bool,
    pub faults: BTreeMap<String, u64>,
    pub probes: BTreeMap<String, u64>,
    pub counters: BTreeMap<String, u64>,
    pub samples: Vec<Json>,
    pub violations: Vec<Violation>,
    pub diagnostics: Vec<String>,
    pub log_hash: crate::Fnv,
    /// order-independent digests (wrapping sums of mixed values): merging shards by addition gives
    /// a value that does not depend on the number of shards
    pub seed_sum: u64,
    pub outcome_sum: u64,
    /// a shard stops after this many distinct violation classes
    pub violation_cap: usize,
}

impl ShardStats {
    pub fn new() -> Self {
        ShardStats {
            start: Instant::now(),
            evaluations: 0,
            nontrivial_runs: 0,
            steps: 0,
            first_seed: None,
            last_seed: 0,
            fingerprints: BTreeSet::new(),
            fp_saturated: false,
            faults: BTreeMap::new(),
            probes: BTreeMap::new(),
            counters: BTreeMap::new(),
            samples: Vec::new(),
            violations: Vec::new(),
            diagnostics: Vec::new(),
            log_hash: crate::Fnv::new(),
            seed_sum: 0,
            outcome_sum: 0,
            violation_cap: VIOLATION_CAP,
        }
    }
    pub fn run_seed(&mut self, seed: u64) {
        if self.first_seed.is_none() {
            self.first_seed = Some(seed);
        }
        self.last_seed = seed;
        self.evaluations += 1;
        let mut st = seed;
        self.seed_sum = self.seed_sum.wrapping_add(crate::rng::splitmix64(&mut st));
    }
    pub fn nontrivial(&mut self, fingerprint: u64) {
        self.nontrivial_runs += 1;
        let mut st = fingerprint;
        self.outcome_sum = self.outcome_sum.wrapping_add(crate::rng::splitmix64(&mut st));
        if self.fingerprints.len() < FP_CAP {
            self.fingerprints.insert(fingerprint);
        } else if !self.fingerprints.contains(&fingerprint) {
            self.fp_saturated = true;
        }
    }
    pub fn fault(&mut self, kind: &str) {
        *self.faults.entry(kind.to_string()).or_insert(0) += 1;
    }
    pub fn fault_n(&mut self, kind: &str, n: u64) {
        if n == 0 && !self.faults.contains_key(kind) {
            return;
        }
        *self.faults.entry(kind.to_string()).or_insert(0) += n;
    }
    pub fn probe(&mut self, name: &str) {
        *self.probes.entry(name.to_string()).or_insert(0) += 1;
    }
    pub fn probe_n(&mut self, name: &str, n: u64) {
        // an undeclared probe that never fires is not reported as "stuck at zero"
        if n == 0 && !self.probes.contains_key(name) {
            return;
        }
        *self.probes.entry(name.to_string()).or_insert(0) += n;
    }
    pub fn declare_probe(&mut self, name: &str) {
        self.probes.entry(name.to_string()).or_insert(0);
    }
    pub fn declare_fault(&mut self, name: &str) {
        self.faults.entry(name.to_string()).or_insert(0);
    }
    pub fn count(&mut self, name: &str, n: u64) {
        *self.counters.entry(name.to_string()).or_insert(0) += n;
    }
    pub fn sample(&mut self, s: Json) {
        if self.samples.len() < SAMPLE_CAP {
            self.samples.push(s);
        }
    }
    pub fn want_sample(&self) -> bool {
        self.samples.len() < SAMPLE_CAP
    }
    /// Records a violation; returns true when the shard should stop (cap reached).
    pub fn violation(&mut self, v: Violation) -> bool {
        // one violation per class and shard is enough; the top level dedups again
        if !self.violations.iter().any(|w| w.class == v.class && w.property == v.property) {
            self.violations.push(v);
        }
        self.violations.len() >= self.violation_cap
    }
    pub fn has_class(&self, property: &str, class: &str) -> bool {
        self.violations.iter().any(|w| w.class == class && w.property == property)
    }

    pub fn write(&self, args: &WorkerArgs, engine: &str) -> std::io::Result<()> {
        std::fs::create_dir_all(&args.out)?;
        let map_json = |m: &BTreeMap<String, u64>| {
            Json::Obj(m.iter().map(|(k, v)| (k.clone(), Json::Int(*v as i64))).collect())
        };
        let j = Json::obj(vec![
            ("engine", Json::str(engine)),
            ("property", Json::str(&args.prop)),
            ("tier", Json::str(&args.tier)),
            ("seed", Json::Int(args.seed as i64)),
            ("shard", Json::Int(args.shard as i64)),
            ("nshards", Json::Int(args.nshards as i64)),
            ("evaluations", Json::Int(self.evaluations as i64)),
            ("nontrivial_runs", Json::Int(self.nontrivial_runs as i64)),
            ("distinct_local", Json::Int(self.fingerprints.len() as i64)),
            ("fp_saturated", Json::Bool(self.fp_saturated)),
            ("steps", Json::Int(self.steps as i64)),
            ("first_seed", Json::str(&format!("{:016x}", self.first_seed.unwrap_or(0)))),
            ("last_seed", Json::str(&format!("{:016x}", self.last_seed))),
            ("faults_fired", map_json(&self.faults)),
            ("probes", map_json(&self.probes)),
            ("counters", map_json(&self.counters)),
            ("samples", Json::Arr(self.samples.clone())),
            (
                "violations",
                Json::Arr(self.violations.iter().map(|v| v.to_json(engine)).collect()),
            ),
            ("diagnostics", Json::arr_str(&self.diagnostics)),
            ("log_hash", Json::str(&format!("{:016x}", self.log_hash.finish()))),
            ("seed_sum", Json::str(&format!("{:016x}", self.seed_sum))),
            ("outcome_sum", Json::str(&format!("{:016x}", self.outcome_sum))),
            ("wall_s", Json::Float(self.start.elapsed().as_secs_f64())),
        ]);
        std::fs::write(format!("{}/shard-{}.json", args.out, args.shard), j.to_string())?;
        let mut fp: Vec<u8> = Vec::with_capacity(self.fingerprints.len() * 8);
        for f in &self.fingerprints {
            fp.extend_from_slice(&f.to_le_bytes());
        }
        std::fs::write(format!("{}/shard-{}.fp", args.out, args.shard), fp)?;
        Ok(())
    }
}
