//! A small JSON value with a deterministic writer (object keys keep insertion order) and a
//! parser for replay and result files.

#[derive(Clone, Debug, PartialEq)]
pub enum Json {
    Null,
    Bool(bool),
    Int(i64),
    Float(f64),
    Str(String),
    Arr(Vec<Json>),
    Obj(Vec<(String, Json)>),
}

impl Json {
    pub fn str(s: &str) -> Json {
        Json::Str(s.to_string())
    }
    pub fn obj(kvs: Vec<(&str, Json)>) -> Json {
        Json::Obj(kvs.into_iter().map(|(k, v)| (k.to_string(), v)).collect())
    }
    pub fn arr_u32(xs: &[u32]) -> Json {
        Json::Arr(xs.iter().map(|x| Json::Int(*x as i64)).collect())
    }
    pub fn arr_str<S: AsRef<str>>(xs: &[S]) -> Json {
        Json::Arr(xs.iter().map(|x| Json::str(x.as_ref())).collect())
    }
    pub fn get(&self, key: &str) -> Option<&Json> {
        match self {
            Json::Obj(kvs) => kvs.iter().find(|(k, _)| k == key).map(|(_, v)| v),
            _ => None,
        }
    }
    pub fn set(&mut self, key: &str, val: Json) {
        if let Json::Obj(kvs) = self {
            if let Some(kv) = kvs.iter_mut().find(|(k, _)| k == key) {
                kv.1 = val;
            } else {
                kvs.push((key.to_string(), val));
            }
        }
    }
    pub fn as_i64(&self) -> Option<i64> {
        match self {
            Json::Int(i) => Some(*i),
            Json::Float(f) => Some(*f as i64),
            _ => None,
        }
    }
    pub fn as_u64(&self) -> Option<u64> {
        self.as_i64().map(|i| i as u64)
    }
    pub fn as_str(&self) -> Option<&str> {
        match self {
            Json::Str(s) => Some(s),
            _ => None,
        }
    }
    pub fn as_bool(&self) -> Option<bool> {
        match self {
            Json::Bool(b) => Some(*b),
            _ => None,
        }
    }
    pub fn as_arr(&self) -> Option<&[Json]> {
        match self {
            Json::Arr(a) => Some(a),
            _ => None,
        }
    }
    pub fn as_obj(&self) -> Option<&[(String, Json)]> {
        match self {
            Json::Obj(o) => Some(o),
            _ => None,
        }
    }

    pub fn write(&self, out: &mut String) {
        match self {
            Json::Null => out.push_str("null"),
            Json::Bool(b) => out.push_str(if *b { "true" } else { "false" }),
            Json::Int(i) => out.push_str(&i.to_string()),
            Json::Float(f) => {
                if f.is_finite() {
                    let s = format!("{}", f);
                    out.push_str(&s);
                    if !s.contains('.') && !s.contains('e') {
                        out.push_str(".0");
                    }
                } else {
                    out.push_str("null");
                }
            }
            Json::Str(s) => write_str(s, out),
            Json::Arr(a) => {
                out.push('[');
                for (i, x) in a.iter().enumerate() {
                    if i > 0 {
                        out.push(',');
                    }
                    x.write(out);
                }
                out.push(']');
            }
            Json::Obj(o) => {
                out.push('{');
                for (i, (k, v)) in o.iter().enumerate() {
                    if i > 0 {
                        out.push(',');
                    }
                    write_str(k, out);
                    out.push(':');
                    v.write(out);
                }
                out.push('}');
            }
        }
    }

    pub fn to_string(&self) -> String {
        let mut s = String::new();
        self.write(&mut s);
        s
    }

    pub fn parse(text: &str) -> Result<Json, String> {
        let mut p = Parser {
            b: text.as_bytes(),
            i: 0,
        };
        p.ws();
        let v = p.value()?;
        p.ws();
        if p.i != p.b.len() {
            return Err(format!("trailing data at byte {}", p.i));
        }
        Ok(v)
    }
}

fn write_str(s: &str, out: &mut String) {
    out.push('"');
    for c in s.chars() {
        match c {
            '"' => out.push_str("\\\""),
            '\\' => out.push_str("\\\\"),
            '\n' => out.push_str("\\n"),
            '\r' => out.push_str("\\r"),
            '\t' => out.push_str("\\t"),
            c if (c as u32) < 0x20 => out.push_str(&format!("\\u{:04x}", c as u32)),
            c => out.push(c),
        }
    }
    out.push('"');
}

struct Parser<'a> {
    b: &'a [u8],
    i: usize,
}

impl<'a> Parser<'a> {
    fn ws(&mut self) {
        while self.i < self.b.len() && matches!(self.b[self.i], b' ' | b'\n' | b'\r' | b'\t') {
            self.i += 1;
        }
    }
    fn value(&mut self) -> Result<Json, String> {
        if self.i >= self.b.len() {
            return Err("unexpected end".into());
        }
        match self.b[self.i] {
            b'n' => self.lit("null", Json::Null),
            b't' => self.lit("true", Json::Bool(true)),
            b'f' => self.lit("false", Json::Bool(false)),
            b'"' => Ok(Json::Str(self.string()?)),
            b'[' => {
                self.i += 1;
                let mut a = Vec::new();
                self.ws();
                if self.peek() == Some(b']') {
                    self.i += 1;
                    return Ok(Json::Arr(a));
                }
                loop {
                    self.ws();
                    a.push(self.value()?);
                    self.ws();
                    match self.peek() {
                        Some(b',') => self.i += 1,
                        Some(b']') => {
                            self.i += 1;
                            return Ok(Json::Arr(a));
                        }
                        _ => return Err(format!("expected , or ] at {}", self.i)),
                    }
                }
            }
            b'{' => {
                self.i += 1;
                let mut o = Vec::new();
                self.ws();
                if self.peek() == Some(b'}') {
                    self.i += 1;
                    return Ok(Json::Obj(o));
                }
                loop {
                    self.ws();
                    let k = self.string()?;
                    self.ws();
                    if self.peek() != Some(b':') {
                        return Err(format!("expected : at {}", self.i));
                    }
                    self.i += 1;
                    self.ws();
                    let v = self.value()?;
                    o.push((k, v));
                    self.ws();
                    match self.peek() {
                        Some(b',') => self.i += 1,
                        Some(b'}') => {
                            self.i += 1;
                            return Ok(Json::Obj(o));
                        }
                        _ => return Err(format!("expected , or }} at {}", self.i)),
                    }
                }
            }
            _ => self.number(),
        }
    }
    fn peek(&self) -> Option<u8> {
        self.b.get(self.i).copied()
    }
    fn lit(&mut self, s: &str, v: Json) -> Result<Json, String> {
        if self.b[self.i..].starts_with(s.as_bytes()) {
            self.i += s.len();
            Ok(v)
        } else {
            Err(format!("bad literal at {}", self.i))
        }
    }
    fn number(&mut self) -> Result<Json, String> {
        let start = self.i;
        while self.i < self.b.len()
            && matches!(self.b[self.i], b'0'..=b'9' | b'-' | b'+' | b'.' | b'e' | b'E')
        {
            self.i += 1;
        }
        let s = std::str::from_utf8(&self.b[start..self.i]).map_err(|e| e.to_string())?;
        if let Ok(i) = s.parse::<i64>() {
            return Ok(Json::Int(i));
        }
        if let Ok(u) = s.parse::<u64>() {
            return Ok(Json::Int(u as i64));
        }
        s.parse::<f64>()
            .map(Json::Float)
            .map_err(|_| format!("bad number {:?} at {}", s, start))
    }
    fn string(&mut self) -> Result<String, String> {
        if self.peek() != Some(b'"') {
            return Err(format!("expected string at {}", self.i));
        }
        self.i += 1;
        let mut out: Vec<u8> = Vec::new();
        loop {
            let c = *self.b.get(self.i).ok_or("unterminated string")?;
            self.i += 1;
            match c {
                b'"' => break,
                b'\\' => {
                    let e = *self.b.get(self.i).ok_or("unterminated escape")?;
                    self.i += 1;
                    match e {
                        b'"' => out.push(b'"'),
                        b'\\' => out.push(b'\\'),
                        b'/' => out.push(b'/'),
                        b'n' => out.push(b'\n'),
                        b'r' => out.push(b'\r'),
                        b't' => out.push(b'\t'),
                        b'b' => out.push(8),
                        b'f' => out.push(12),
                        b'u' => {
                            let h = std::str::from_utf8(
                                self.b.get(self.i..self.i + 4).ok_or("short \\u")?,
                            )
                            .map_err(|e| e.to_string())?;
                            let mut cp = u32::from_str_radix(h, 16).map_err(|e| e.to_string())?;
                            self.i += 4;
                            if (0xd800..0xdc00).contains(&cp)
                                && self.b.get(self.i..self.i + 2) == Some(b"\\u")
                            {
                                let h2 = std::str::from_utf8(
                                    self.b.get(self.i + 2..self.i + 6).ok_or("short \\u")?,
                                )
                                .map_err(|e| e.to_string())?;
                                let lo = u32::from_str_radix(h2, 16).map_err(|e| e.to_string())?;
                                self.i += 6;
                                cp = 0x10000 + ((cp - 0xd800) << 10) + (lo - 0xdc00);
                            }
                            let ch = char::from_u32(cp).unwrap_or('\u{fffd}');
                            let mut buf = [0u8; 4];
                            out.extend_from_slice(ch.encode_utf8(&mut buf).as_bytes());
                        }
                        _ => return Err(format!("bad escape at {}", self.i)),
                    }
                }
                c => out.push(c),
            }
        }
        String::from_utf8(out).map_err(|e| e.to_string())
    }
}

#[cfg(test)]
mod tests {
    use super::*;
    #[test]
    fn roundtrip() {
        let j = Json::obj(vec![
            ("a", Json::Int(-3)),
            ("b", Json::Arr(vec![Json::Null, Json::Bool(true), Json::Float(1.5)])),
            ("c", Json::str("x\"y\\z\n\u{1}é")),
        ]);
        let s = j.to_string();
        assert_eq!(Json::parse(&s).unwrap(), j);
    }
}
