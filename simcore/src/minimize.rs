//! Delta debugging over a list: drop chunks, then single items, then rewrite single items.

/// Shrinks `items` while `fails(candidate)` stays true. `fails(items)` must be true on entry.
/// `budget` bounds the number of predicate evaluations.
pub fn ddmin<T: Clone>(mut items: Vec<T>, budget: &mut usize, fails: &mut dyn FnMut(&[T]) -> bool) -> Vec<T> {
    let mut chunk = (items.len() + 1) / 2;
    while chunk >= 1 && !items.is_empty() {
        let mut i = 0;
        let mut progressed = false;
        while i < items.len() {
            if *budget == 0 {
                return items;
            }
            let end = (i + chunk).min(items.len());
            let mut cand: Vec<T> = Vec::with_capacity(items.len() - (end - i));
            cand.extend_from_slice(&items[..i]);
            cand.extend_from_slice(&items[end..]);
            *budget -= 1;
            if fails(&cand) {
                items = cand;
                progressed = true;
            } else {
                i = end;
            }
        }
        if chunk == 1 {
            if !progressed {
                break;
            }
        } else {
            chunk = (chunk + 1) / 2;
            if chunk < 1 {
                chunk = 1;
            }
        }
    }
    items
}

/// Tries to replace single items by simpler alternatives proposed by `simpler(item)`.
pub fn simplify_items<T: Clone>(
    mut items: Vec<T>,
    budget: &mut usize,
    simpler: &dyn Fn(&T) -> Vec<T>,
    fails: &mut dyn FnMut(&[T]) -> bool,
) -> Vec<T> {
    let mut changed = true;
    let mut rounds = 0;
    while changed && rounds < 4 {
        changed = false;
        rounds += 1;
        for i in 0..items.len() {
            for alt in simpler(&items[i]) {
                if *budget == 0 {
                    return items;
                }
                let mut cand = items.clone();
                cand[i] = alt;
                *budget -= 1;
                if fails(&cand) {
                    items = cand;
                    changed = true;
                    break;
                }
            }
        }
    }
    items
}

#[cfg(test)]
mod tests {
    use super::*;
    #[test]
    fn finds_pair() {
        let items: Vec<u32> = (0..50).collect();
        let mut budget = 10_000;
        let r = ddmin(items, &mut budget, &mut |c| c.contains(&7) && c.contains(&31));
        assert_eq!(r, vec![7, 31]);
    }
}
