//! Shared core of the three simulators: PRNG, seeding, JSON, fingerprints, delta debugging,
//! worker command line and result files. No external dependencies, so that the random stream and
//! every derived decision can never change under us.

pub mod cli;
pub mod json;
pub mod minimize;
pub mod rng;

pub use json::Json;
pub use rng::Rng;

/// FNV-1a, 64 bit. Used for state fingerprints and event-log hashes (never for decisions).
#[derive(Clone, Copy)]
pub struct Fnv(pub u64);

impl Fnv {
    pub fn new() -> Self {
        Fnv(0xcbf29ce484222325)
    }
    pub fn bytes(&mut self, bs: &[u8]) {
        for b in bs {
            self.0 ^= *b as u64;
            self.0 = self.0.wrapping_mul(0x100000001b3);
        }
    }
    pub fn u64(&mut self, x: u64) {
        self.bytes(&x.to_le_bytes());
    }
    pub fn u32(&mut self, x: u32) {
        self.bytes(&x.to_le_bytes());
    }
    pub fn str(&mut self, s: &str) {
        self.bytes(s.as_bytes());
        self.bytes(&[0xff]);
    }
    pub fn finish(&self) -> u64 {
        // final avalanche so that short inputs spread over the whole word
        let mut z = self.0;
        z = (z ^ (z >> 30)).wrapping_mul(0xbf58476d1ce4e5b9);
        z = (z ^ (z >> 27)).wrapping_mul(0x94d049bb133111eb);
        z ^ (z >> 31)
    }
}

pub fn fnv_str(s: &str) -> u64 {
    let mut h = Fnv::new();
    h.str(s);
    h.finish()
}

/// An event log that is hashed as it is written and optionally kept as text.
pub struct EventLog {
    pub hash: Fnv,
    pub lines: Option<Vec<String>>,
    pub count: u64,
}

impl EventLog {
    pub fn new(keep: bool) -> Self {
        EventLog {
            hash: Fnv::new(),
            lines: if keep { Some(Vec::new()) } else { None },
            count: 0,
        }
    }
    pub fn push(&mut self, line: &str) {
        self.hash.str(line);
        self.count += 1;
        if let Some(ls) = &mut self.lines {
            ls.push(line.to_string());
        }
    }
    pub fn digest(&self) -> u64 {
        self.hash.finish()
    }
}

/// A violation found by a worker, already minimised; `case` is the explicit replay case.
#[derive(Clone, Debug)]
pub struct Violation {
    pub property: String,
    pub class: String,
    pub message: String,
    pub seed: u64,
    pub run_index: u64,
    pub case: Json,
    pub log_hash: u64,
}

impl Violation {
    pub fn to_json(&self, engine: &str) -> Json {
        Json::obj(vec![
            ("engine", Json::str(engine)),
            ("property", Json::str(&self.property)),
            ("class", Json::str(&self.class)),
            ("message", Json::str(&self.message)),
            ("seed", Json::Int(self.seed as i64)),
            ("run_index", Json::Int(self.run_index as i64)),
            ("log_hash", Json::str(&format!("{:016x}", self.log_hash))),
            ("case", self.case.clone()),
        ])
    }
}
