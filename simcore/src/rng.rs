//! splitmix64 for seed derivation, xoshiro256** for the per-run stream.

#[derive(Clone, Debug)]
pub struct Rng {
    s: [u64; 4],
}

pub fn splitmix64(state: &mut u64) -> u64 {
    *state = state.wrapping_add(0x9e3779b97f4a7c15);
    let mut z = *state;
    z = (z ^ (z >> 30)).wrapping_mul(0xbf58476d1ce4e5b9);
    z = (z ^ (z >> 27)).wrapping_mul(0x94d049bb133111eb);
    z ^ (z >> 31)
}

/// Seed of run `index` of stream `stream` under the master seed.
pub fn derive_seed(master: u64, stream: u64, index: u64) -> u64 {
    let mut st = master ^ stream.wrapping_mul(0xd1342543de82ef95);
    let a = splitmix64(&mut st);
    let mut st2 = a ^ index.wrapping_mul(0x2545f4914f6cdd1d);
    splitmix64(&mut st2)
}

impl Rng {
    pub fn new(seed: u64) -> Self {
        let mut st = seed;
        let s = [
            splitmix64(&mut st),
            splitmix64(&mut st),
            splitmix64(&mut st),
            splitmix64(&mut st),
        ];
        Rng { s }
    }

    pub fn next_u64(&mut self) -> u64 {
        let result = self.s[1].wrapping_mul(5).rotate_left(7).wrapping_mul(9);
        let t = self.s[1] << 17;
        self.s[2] ^= self.s[0];
        self.s[3] ^= self.s[1];
        self.s[1] ^= self.s[2];
        self.s[0] ^= self.s[3];
        self.s[2] ^= t;
        self.s[3] = self.s[3].rotate_left(45);
        result
    }

    /// Uniform in 0..n (n > 0). Uses multiply-shift; the tiny bias is irrelevant here and the
    /// mapping is fixed forever, which is what matters for replay.
    pub fn below(&mut self, n: u64) -> u64 {
        assert!(n > 0);
        ((self.next_u64() as u128 * n as u128) >> 64) as u64
    }

    pub fn usize_below(&mut self, n: usize) -> usize {
        self.below(n as u64) as usize
    }

    /// Uniform in lo..=hi.
    pub fn range(&mut self, lo: u64, hi: u64) -> u64 {
        assert!(lo <= hi);
        lo + self.below(hi - lo + 1)
    }

    /// True with probability num/den.
    pub fn chance(&mut self, num: u64, den: u64) -> bool {
        self.below(den) < num
    }

    pub fn pick<'a, T>(&mut self, xs: &'a [T]) -> &'a T {
        &xs[self.usize_below(xs.len())]
    }

    /// Index drawn according to integer weights (at least one weight must be positive).
    pub fn weighted(&mut self, weights: &[u32]) -> usize {
        let total: u64 = weights.iter().map(|w| *w as u64).sum();
        assert!(total > 0);
        let mut x = self.below(total);
        for (i, w) in weights.iter().enumerate() {
            if x < *w as u64 {
                return i;
            }
            x -= *w as u64;
        }
        unreachable!()
    }

    pub fn shuffle<T>(&mut self, xs: &mut [T]) {
        for i in (1..xs.len()).rev() {
            let j = self.usize_below(i + 1);
            xs.swap(i, j);
        }
    }

    /// A child stream that does not disturb this one beyond a single draw.
    pub fn fork(&mut self) -> Rng {
        Rng::new(self.next_u64())
    }
}
