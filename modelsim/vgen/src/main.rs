fn main() {
    vgen::main_impl();
}
