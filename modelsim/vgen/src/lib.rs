//! Corpus builder: program (own AST) -> .eql -> real compiler of the current tree (in-process,
//! module mode) -> driver file that is textually included next to the generated module.
//!
//!   vgen probe  --seed S --count N                 acceptance statistics of the generator
//!   vgen corpus --seed S --count N --out DIR       writes the batch workspace

use lang::ast::*;
use lang::gen::{gen_program, GenKnobs};
use simcore::rng::derive_seed;
use simcore::Rng;
use std::collections::BTreeMap;
use std::fmt::Write as _;
use std::path::{Path, PathBuf};

pub const GEN_STREAM: u64 = 4242;

pub const MODEL_STREAM: u64 = 4343;

pub fn model_program_for(seed: u64, index: u64) -> lang::gen::ModelProg {
    let mut rng = Rng::new(derive_seed(seed, MODEL_STREAM, index));
    lang::gen::gen_model_program(&mut rng)
}

pub const MEMBER_STREAM: u64 = 4444;

pub fn member_program_for(seed: u64, index: u64) -> lang::gen::ModelProg {
    let mut rng = Rng::new(derive_seed(seed, MEMBER_STREAM, index));
    lang::gen::gen_member_program(&mut rng)
}

pub fn program_for(seed: u64, index: u64) -> (Program, GenKnobs) {
    let mut rng = Rng::new(derive_seed(seed, GEN_STREAM, index));
    let knobs = GenKnobs::draw(&mut rng);
    let p = gen_program(&mut rng, &knobs);
    (p, knobs)
}

fn letters(mut i: usize) -> String {
    let mut s = String::new();
    for _ in 0..3 {
        s.insert(0, (b'a' + (i % 26) as u8) as char);
        i /= 26;
    }
    s
}

/// Compiles one theory text in module mode with the compiler of the current tree.
/// Ok(module text) / Err(first line of the diagnostic or panic message).
pub fn compile_module(dir: &Path, stem: &str, text: &str) -> Result<String, String> {
    let in_dir = dir.join("in");
    let out_dir = dir.join("out");
    let _ = std::fs::remove_dir_all(&in_dir);
    let _ = std::fs::remove_dir_all(&out_dir);
    std::fs::create_dir_all(&in_dir).map_err(|e| e.to_string())?;
    std::fs::write(in_dir.join(format!("{stem}.eql")), text).map_err(|e| e.to_string())?;
    let config = eqlog::Config {
        in_dir,
        out_dir: out_dir.clone(),
        component_build: None,
    };
    let r = std::panic::catch_unwind(std::panic::AssertUnwindSafe(|| eqlog::process(&config).map_err(|e| format!("{e}"))));
    match r {
        Ok(Ok(())) => std::fs::read_to_string(out_dir.join(format!("{stem}.eql.rs"))).map_err(|e| e.to_string()),
        Ok(Err(e)) => Err(e.lines().next().unwrap_or("").to_string()),
        Err(p) => {
            let m = if let Some(s) = p.downcast_ref::<&str>() {
                s.to_string()
            } else if let Some(s) = p.downcast_ref::<String>() {
                s.clone()
            } else {
                "panic".into()
            };
            Err(format!("PANIC: {m}"))
        }
    }
}

// ---------------------------------------------------------------------------------------------
// driver generation

pub struct ParsedModule {
    pub struct_name: String,
    /// (field, arity) of PrefixTree index fields
    pub index_fields: Vec<(String, usize)>,
    /// (field, arity)
    pub element_index_fields: Vec<(String, usize)>,
    /// (field, arity)
    pub delta_fields: Vec<(String, usize)>,
    pub rule_block: String,
}

fn struct_body<'a>(text: &'a str, header: &str) -> Result<&'a str, String> {
    let start = text.find(header).ok_or(format!("emitted text has no `{header}`"))?;
    let rest = &text[start + header.len()..];
    let end = rest.find("\n}").ok_or("unterminated struct")?;
    Ok(&rest[..end])
}

pub fn parse_module(text: &str, struct_name: &str) -> Result<ParsedModule, String> {
    let body = struct_body(text, &format!("pub struct {struct_name} {{"))?;
    let mut index_fields = Vec::new();
    let mut element_index_fields = Vec::new();
    for line in body.lines() {
        let line = line.trim().trim_end_matches(',');
        if line.is_empty() || line.starts_with("//") {
            continue;
        }
        let (name, ty) = line.split_once(':').ok_or(format!("cannot parse field line {line:?}"))?;
        let (name, ty) = (name.trim(), ty.trim());
        if let Some(n) = ty.strip_prefix("PrefixTree") {
            let n: usize = n.parse().map_err(|_| format!("bad index type {ty}"))?;
            if !(name.contains("_new_") || name.contains("_old_")) || !name.contains("_order_") {
                return Err(format!("index field {name} does not follow the <rel>_<age>[_eqs_..]_order_<perm> grammar"));
            }
            index_fields.push((name.to_string(), n));
        } else if ty.starts_with("BTreeMap<u32, Vec<[u32;") && name.ends_with("_element_index") {
            let n: usize = ty
                .trim_start_matches("BTreeMap<u32, Vec<[u32;")
                .trim_end_matches("]>>")
                .trim()
                .parse()
                .map_err(|_| format!("bad element index type {ty}"))?;
            element_index_fields.push((name.to_string(), n));
        } else if name.ends_with("_equalities") || name.ends_with("_weights") || name.ends_with("_uprooted") || name == "empty_join_is_dirty" || name == "pending_delta" {
            // known bookkeeping fields
        } else {
            return Err(format!("unknown field {name}: {ty} in the model struct"));
        }
    }
    let dbody = struct_body(text, "struct ModelDelta {")?;
    let mut delta_fields = Vec::new();
    for line in dbody.lines() {
        let line = line.trim().trim_end_matches(',');
        if line.is_empty() {
            continue;
        }
        let (name, ty) = line.split_once(':').ok_or(format!("cannot parse delta line {line:?}"))?;
        let n: usize = ty
            .trim()
            .trim_start_matches("Vec<[u32;")
            .trim_end_matches("]>")
            .trim()
            .parse()
            .map_err(|_| format!("bad delta type {ty}"))?;
        delta_fields.push((name.trim().to_string(), n));
    }
    // the rule-call block of close_until
    let cu = text.find("pub fn close_until").ok_or("no close_until")?;
    let rest = &text[cu..];
    let lp = rest.find("\nloop {").ok_or("no loop in close_until")?;
    let after = &rest[lp + "\nloop {".len()..];
    let end = after.find("self.move_new_to_old();").ok_or("no move_new_to_old call in close_until")?;
    Ok(ParsedModule {
        struct_name: struct_name.to_string(),
        index_fields,
        element_index_fields,
        delta_fields,
        rule_block: after[..end].to_string(),
    })
}

fn wrap(p: &Program, sort: usize, expr: &str) -> String {
    format!("{}({})", p.sorts[sort].name, expr)
}

pub fn gen_driver(p: &Program, text: &str, stem: &str) -> Result<String, String> {
    let struct_name = to_camel(stem);
    let pm = parse_module(text, &struct_name)?;
    let mut o = String::new();
    let w = &mut o;
    let _ = writeln!(w, "// generated by vgen: dynamic driver for {stem}");
    let _ = writeln!(w, "#[repr(transparent)]\npub struct Drv({struct_name});");
    let _ = writeln!(w, "pub fn new_model() -> Box<dyn mdrv::DynModel> {{ Box::new(Drv({struct_name}::new())) }}");
    // one ModelDelta per rule group: the block is a sequence of "let env = XEnv {..}; x(env);"
    let mut groups = String::new();
    for seg in pm.rule_block.split("let env = ").skip(1) {
        let call = seg.rsplit_once("};").map(|(_, c)| c.trim()).unwrap_or("");
        let fname = call.split('(').next().unwrap_or("").trim();
        if fname.is_empty() {
            return Err(format!("cannot find the rule call in block segment {seg:?}"));
        }
        let _ = writeln!(groups, "{{ let mut delta = ModelDelta::new();\nlet env = {seg}\nout.push((\"{fname}\", delta)); }}");
    }
    let _ = writeln!(
        w,
        "impl {struct_name} {{\n#[allow(unused_mut)]\nfn verif_run_rules(&mut self) -> Vec<(&'static str, ModelDelta)> {{\nlet mut out = Vec::new();\n{groups}\nout\n}}\n}}"
    );
    let topo_call = match text.find("eqlog_runtime::morphism_toposort(") {
        Some(i) => {
            let rest = &text[i..];
            // the call ends at the parenthesis that matches the one opening its argument list
            let open = rest.find('(').ok_or("cannot find the argument list of the morphism_toposort call")?;
            let mut depth = 0usize;
            let mut end = None;
            for (k, ch) in rest.char_indices().skip(open) {
                match ch {
                    '(' => depth += 1,
                    ')' => {
                        depth -= 1;
                        if depth == 0 {
                            end = Some(k);
                            break;
                        }
                    }
                    _ => {}
                }
            }
            let end = end.ok_or("cannot find the end of the morphism_toposort call")?;
            Some(rest[..end + 1].to_string())
        }
        None => None,
    };
    match &topo_call {
        Some(call) => {
            let _ = writeln!(
                w,
                "impl {struct_name} {{\nfn verif_toposort(&self) -> Option<Result<Vec<(u32, u32, u32)>, ()>> {{\nSome({call}.map(|v| v.iter().map(|m| (m.morph, m.dom, m.cod)).collect()).map_err(|_| ()))\n}}\n}}"
            );
        }
        None => {
            let _ = writeln!(w, "impl {struct_name} {{\nfn verif_toposort(&self) -> Option<Result<Vec<(u32, u32, u32)>, ()>> {{ None }}\n}}");
        }
    }
    let _ = writeln!(w, "#[allow(unused_variables, unreachable_code, unused_mut)]\nimpl mdrv::DynModel for Drv {{");

    // new_el
    let _ = writeln!(w, "fn new_el(&mut self, sort: usize) -> u32 {{ match sort {{");
    for (si, s) in p.sorts.iter().enumerate() {
        if s.kind == SortKind::Plain {
            let _ = writeln!(w, "{si} => self.0.new_{}().0,", p.sort_snake(si));
        }
    }
    let _ = writeln!(w, "_ => panic!(\"new_el: sort {{sort}} has no plain constructor\") }} }}");

    // new_member
    let _ = writeln!(w, "fn new_member(&mut self, sort: usize, parent: u32) -> u32 {{ match sort {{");
    for (si, s) in p.sorts.iter().enumerate() {
        if let SortKind::Member { model_sort, .. } = s.kind {
            let _ = writeln!(w, "{si} => self.0.new_{}({}).0,", p.sort_snake(si), wrap(p, model_sort, "parent"));
        }
    }
    let _ = writeln!(w, "_ => panic!(\"new_member: sort {{sort}} is not a member type\") }} }}");

    // new_enum
    let _ = writeln!(w, "fn new_enum(&mut self, ctor: usize, args: &[u32]) -> u32 {{ match ctor {{");
    for (ri, r) in p.rels.iter().enumerate() {
        if let RelKind::Ctor(es) = r.kind {
            let args: Vec<String> = r.args.iter().enumerate().map(|(i, s)| wrap(p, *s, &format!("args[{i}]"))).collect();
            let _ = writeln!(
                w,
                "{ri} => self.0.new_{}({}Case::{}({})).0,",
                p.sort_snake(es),
                p.sorts[es].name,
                r.name,
                args.join(", ")
            );
        }
    }
    let _ = writeln!(w, "_ => panic!(\"new_enum: not a constructor\") }} }}");

    // insert
    let _ = writeln!(w, "fn insert(&mut self, rel: usize, t: &[u32]) {{ match rel {{");
    for (ri, r) in p.rels.iter().enumerate() {
        let cols = r.column_sorts();
        let args: Vec<String> = cols.iter().enumerate().map(|(i, s)| wrap(p, *s, &format!("t[{i}]"))).collect();
        let _ = writeln!(w, "{ri} => self.0.insert_{}({}),", p.rel_snake(ri), args.join(", "));
    }
    let _ = writeln!(w, "_ => panic!(\"insert: bad relation\") }} }}");

    // define
    let _ = writeln!(w, "fn define(&mut self, rel: usize, args: &[u32]) -> Option<u32> {{ match rel {{");
    for (ri, r) in p.rels.iter().enumerate() {
        if r.is_func() && text.contains(&format!("pub fn define_{}(", p.rel_snake(ri))) {
            let args: Vec<String> = r.args.iter().enumerate().map(|(i, s)| wrap(p, *s, &format!("args[{i}]"))).collect();
            let _ = writeln!(w, "{ri} => Some(self.0.define_{}({}).0),", p.rel_snake(ri), args.join(", "));
        }
    }
    let _ = writeln!(w, "_ => None }} }}");

    // equate / are_equal / root / iter_sort / n_ids
    let _ = writeln!(w, "fn equate(&mut self, sort: usize, a: u32, b: u32) {{ match sort {{");
    for si in 0..p.sorts.len() {
        let _ = writeln!(w, "{si} => self.0.equate_{}({}, {}),", p.sort_snake(si), wrap(p, si, "a"), wrap(p, si, "b"));
    }
    let _ = writeln!(w, "_ => panic!(\"bad sort\") }} }}");
    let _ = writeln!(w, "fn are_equal(&self, sort: usize, a: u32, b: u32) -> bool {{ match sort {{");
    for si in 0..p.sorts.len() {
        let _ = writeln!(w, "{si} => self.0.are_equal_{}({}, {}),", p.sort_snake(si), wrap(p, si, "a"), wrap(p, si, "b"));
    }
    let _ = writeln!(w, "_ => panic!(\"bad sort\") }} }}");
    let _ = writeln!(w, "fn root(&self, sort: usize, a: u32) -> u32 {{ match sort {{");
    for si in 0..p.sorts.len() {
        let _ = writeln!(w, "{si} => self.0.root_{}({}).0,", p.sort_snake(si), wrap(p, si, "a"));
    }
    let _ = writeln!(w, "_ => panic!(\"bad sort\") }} }}");
    let _ = writeln!(w, "fn iter_sort(&self, sort: usize) -> Vec<u32> {{ match sort {{");
    for si in 0..p.sorts.len() {
        let _ = writeln!(w, "{si} => self.0.iter_{}().map(|x| x.0).collect(),", p.sort_snake(si));
    }
    let _ = writeln!(w, "_ => panic!(\"bad sort\") }} }}");
    let _ = writeln!(w, "fn n_ids(&self, sort: usize) -> usize {{ match sort {{");
    for si in 0..p.sorts.len() {
        let _ = writeln!(w, "{si} => self.0.{}_equalities.len(),", p.sort_snake(si));
    }
    let _ = writeln!(w, "_ => panic!(\"bad sort\") }} }}");

    // close
    let _ = writeln!(w, "fn close(&mut self) {{ self.0.close() }}");
    let _ = writeln!(
        w,
        "fn close_until(&mut self, cond: &dyn Fn(&dyn mdrv::DynModel) -> bool) -> bool {{\n self.0.close_until(|m: &{struct_name}| {{ let d: &Drv = unsafe {{ &*(m as *const {struct_name} as *const Drv) }}; cond(d) }})\n}}"
    );

    // holds / eval
    let _ = writeln!(w, "fn holds(&self, rel: usize, t: &[u32]) -> bool {{ match rel {{");
    for (ri, r) in p.rels.iter().enumerate() {
        if r.kind == RelKind::Pred {
            let args: Vec<String> = r.args.iter().enumerate().map(|(i, s)| wrap(p, *s, &format!("t[{i}]"))).collect();
            let _ = writeln!(w, "{ri} => self.0.{}({}),", p.rel_snake(ri), args.join(", "));
        } else {
            let n = r.args.len();
            let rs = r.result.unwrap();
            let _ = writeln!(
                w,
                "{ri} => match self.eval({ri}, &t[..{n}]) {{ Some(v) => self.are_equal({rs}, v, t[{n}]), None => false }},"
            );
        }
    }
    let _ = writeln!(w, "_ => panic!(\"bad relation\") }} }}");
    let _ = writeln!(w, "fn eval(&self, rel: usize, args: &[u32]) -> Option<u32> {{ match rel {{");
    for (ri, r) in p.rels.iter().enumerate() {
        if r.is_func() {
            let args: Vec<String> = r.args.iter().enumerate().map(|(i, s)| wrap(p, *s, &format!("args[{i}]"))).collect();
            let _ = writeln!(w, "{ri} => self.0.{}({}).map(|x| x.0),", p.rel_snake(ri), args.join(", "));
        }
    }
    let _ = writeln!(w, "_ => panic!(\"eval: not a function\") }} }}");

    // iter_rel
    let _ = writeln!(w, "fn iter_rel(&self, rel: usize) -> Option<Vec<Vec<u32>>> {{ match rel {{");
    for (ri, r) in p.rels.iter().enumerate() {
        let n = r.arity();
        if n == 0 {
            let _ = writeln!(w, "{ri} => None,");
        } else if n == 1 {
            let _ = writeln!(w, "{ri} => Some(self.0.iter_{}().map(|x| vec![x.0]).collect()),", p.rel_snake(ri));
        } else {
            let vars: Vec<String> = (0..n).map(|i| format!("c{i}")).collect();
            let items: Vec<String> = (0..n).map(|i| format!("c{i}.0")).collect();
            let _ = writeln!(
                w,
                "{ri} => Some(self.0.iter_{}().map(|({})| vec![{}]).collect()),",
                p.rel_snake(ri),
                vars.join(", "),
                items.join(", ")
            );
        }
    }
    let _ = writeln!(w, "_ => panic!(\"bad relation\") }} }}");

    // enums
    let case_arm = |p: &Program, es: usize| -> String {
        let mut s = String::new();
        if let SortKind::Enum(ctors) = &p.sorts[es].kind {
            for c in ctors {
                let r = &p.rels[*c];
                let vars: Vec<String> = (0..r.args.len()).map(|i| format!("c{i}")).collect();
                let items: Vec<String> = (0..r.args.len()).map(|i| format!("c{i}.0")).collect();
                let _ = writeln!(s, "{}Case::{}({}) => ({c}usize, vec![{}]),", p.sorts[es].name, r.name, vars.join(", "), items.join(", "));
            }
        }
        s
    };
    let _ = writeln!(w, "fn enum_cases(&self, sort: usize, el: u32) -> Vec<(usize, Vec<u32>)> {{ match sort {{");
    for (si, s) in p.sorts.iter().enumerate() {
        if let SortKind::Enum(_) = s.kind {
            let _ = writeln!(
                w,
                "{si} => self.0.{}_cases({}).map(|c| match c {{ {} }}).collect(),",
                p.sort_snake(si),
                wrap(p, si, "el"),
                case_arm(p, si)
            );
        }
    }
    let _ = writeln!(w, "_ => panic!(\"not an enum sort\") }} }}");
    let _ = writeln!(w, "fn enum_case(&self, sort: usize, el: u32) -> (usize, Vec<u32>) {{ match sort {{");
    for (si, s) in p.sorts.iter().enumerate() {
        if let SortKind::Enum(_) = s.kind {
            let _ = writeln!(w, "{si} => match self.0.{}_case({}) {{ {} }},", p.sort_snake(si), wrap(p, si, "el"), case_arm(p, si));
        }
    }
    let _ = writeln!(w, "_ => panic!(\"not an enum sort\") }} }}");

    // private state
    let _ = writeln!(w, "fn indices(&self) -> Vec<mdrv::IndexDump> {{ vec![");
    for (f, _) in &pm.index_fields {
        let _ = writeln!(w, "mdrv::IndexDump {{ field: \"{f}\".to_string(), tuples: self.0.{f}.iter().map(|t| t.to_vec()).collect() }},");
    }
    let _ = writeln!(w, "] }}");
    let _ = writeln!(w, "fn element_indices(&self) -> Vec<(String, Vec<(u32, Vec<Vec<u32>>)>)> {{ vec![");
    for (f, _) in &pm.element_index_fields {
        let _ = writeln!(
            w,
            "(\"{f}\".to_string(), self.0.{f}.iter().map(|(k, rows)| (*k, rows.iter().map(|r| r.to_vec()).collect())).collect()),"
        );
    }
    let _ = writeln!(w, "] }}");
    let _ = writeln!(w, "fn uprooted(&self) -> Vec<Vec<u32>> {{ vec![");
    for si in 0..p.sorts.len() {
        let _ = writeln!(w, "self.0.{}_uprooted.iter().map(|x| x.0).collect(),", p.sort_snake(si));
    }
    let _ = writeln!(w, "] }}");
    let _ = writeln!(w, "fn priv_is_dirty(&self) -> bool {{ self.0.is_dirty() }}");
    let _ = writeln!(w, "fn priv_toposort(&self) -> Option<Result<Vec<(u32, u32, u32)>, ()>> {{ self.0.verif_toposort() }}");
    let _ = writeln!(w, "fn priv_move_new_to_old(&mut self) {{ self.0.move_new_to_old() }}");
    let _ = writeln!(w, "fn priv_canonicalize(&mut self) {{ self.0.canonicalize() }}");
    let _ = writeln!(
        w,
        "fn priv_run_rules(&mut self) -> Vec<(String, String, Vec<Vec<u32>>)> {{\nlet mut res = Vec::new();\nfor (g, delta) in self.0.verif_run_rules() {{"
    );
    for (f, _) in &pm.delta_fields {
        let _ = writeln!(w, "res.push((g.to_string(), \"{f}\".to_string(), delta.{f}.iter().map(|t| t.to_vec()).collect()));");
    }
    let _ = writeln!(w, "}}\nres }}");
    let _ = writeln!(w, "}}");
    Ok(o)
}

// ---------------------------------------------------------------------------------------------
// corpus / workspace emission

pub struct CorpusItem {
    pub stem: String,
    pub text: String,
    pub origin: String,
    pub program: Program,
}

fn arg_map() -> BTreeMap<String, String> {
    let args: Vec<String> = std::env::args().skip(2).collect();
    let mut m = BTreeMap::new();
    let mut i = 0;
    while i + 1 < args.len() {
        if let Some(k) = args[i].strip_prefix("--") {
            m.insert(k.to_string(), args[i + 1].clone());
        }
        i += 2;
    }
    m
}

pub fn main_impl() {
    std::panic::set_hook(Box::new(|_| {}));
    let cmd = std::env::args().nth(1).unwrap_or_default();
    let a = arg_map();
    let seed: u64 = a.get("seed").and_then(|s| s.parse().ok()).unwrap_or(1);
    let count: usize = a.get("count").and_then(|s| s.parse().ok()).unwrap_or(40);
    let first: usize = a.get("first").and_then(|s| s.parse().ok()).unwrap_or(0);
    match cmd.as_str() {
        "probe" => {
            let tmp = PathBuf::from(format!("/dev/shm/vgen-probe-{}", std::process::id()));
            let mut stats: BTreeMap<String, usize> = BTreeMap::new();
            for i in first..first + count {
                let (p, _) = program_for(seed, i as u64);
                let text = lang::print::program(&p);
                let key = match compile_module(&tmp, "pgx", &text) {
                    Ok(_) => "accepted".to_string(),
                    Err(e) => {
                        if a.contains_key("show") && stats.get(&e).copied().unwrap_or(0) < 2 {
                            println!("---- program {i}: {e}\n{text}");
                        }
                        e
                    }
                };
                *stats.entry(key).or_insert(0) += 1;
            }
            let _ = std::fs::remove_dir_all(&tmp);
            let mut v: Vec<_> = stats.into_iter().collect();
            v.sort_by_key(|(_, n)| std::cmp::Reverse(*n));
            for (k, n) in v {
                println!("{n:6} {k}");
            }
        }
        "probemember" => {
            let tmp = PathBuf::from(format!("/dev/shm/vgen-probe-{}", std::process::id()));
            let mut stats: BTreeMap<String, usize> = BTreeMap::new();
            for i in first..first + count {
                let mp = member_program_for(seed, i as u64);
                let key = match compile_module(&tmp, "pnx", &mp.text) {
                    Ok(_) => "accepted".to_string(),
                    Err(e) => {
                        if a.contains_key("show") && stats.get(&e).copied().unwrap_or(0) < 2 {
                            println!("---- program {i}: {e}\n{}", mp.text);
                        }
                        e
                    }
                };
                *stats.entry(key).or_insert(0) += 1;
            }
            let _ = std::fs::remove_dir_all(&tmp);
            for (k, n) in stats {
                println!("{n:6} {k}");
            }
        }
        "one" => {
            // compile one .eql file to Rust text (for inspection): vgen one --file x.eql --out dir
            let file = PathBuf::from(a.get("file").expect("--file"));
            let out = PathBuf::from(a.get("out").expect("--out"));
            let text = std::fs::read_to_string(&file).expect("read");
            let stem = file.file_stem().unwrap().to_str().unwrap().to_string();
            match compile_module(&out, &stem, &text) {
                Ok(t) => println!("ok: {} bytes in {}", t.len(), out.display()),
                Err(e) => {
                    println!("rejected: {e}");
                    if a.contains_key("full") {
                        let config = eqlog::Config { in_dir: out.join("in"), out_dir: out.join("out"), component_build: None };
                        if let Err(e) = eqlog::process(&config) {
                            println!("{e}");
                        }
                    }
                    std::process::exit(1);
                }
            }
        }
        "corpus" => {
            let out = PathBuf::from(a.get("out").expect("--out"));
            if let Err(e) = corpus(seed, first, count, &out, a.get("exclude").map(|s| s.as_str()).unwrap_or("")) {
                eprintln!("vgen: {e}");
                std::process::exit(2);
            }
        }
        "compcorpus" => {
            let out = PathBuf::from(a.get("out").expect("--out"));
            let rlib = PathBuf::from(a.get("runtime-rlib").expect("--runtime-rlib"));
            if let Err(e) = comp_corpus(seed, first, count, &out, &rlib) {
                eprintln!("vgen: {e}");
                std::process::exit(2);
            }
        }
        _ => {
            eprintln!("usage: vgen probe|corpus|compcorpus ...");
            std::process::exit(2);
        }
    }
}

/// Writes a file only when its content changes, so that cargo's mtime-based freshness check
/// does not rebuild an unchanged corpus.
fn write_if_changed(path: &Path, content: &str) -> Result<(), String> {
    if let Ok(old) = std::fs::read_to_string(path) {
        if old == content {
            return Ok(());
        }
    }
    std::fs::write(path, content).map_err(|e| e.to_string())
}

fn corpus(seed: u64, first: usize, count: usize, out: &Path, exclude: &str) -> Result<(), String> {
    let excluded: Vec<&str> = exclude.split(',').filter(|s| !s.is_empty()).collect();
    let gen_dir = out.join("gen");
    std::fs::create_dir_all(&gen_dir).map_err(|e| e.to_string())?;
    let tmp = out.join("tmp");
    let mut items: Vec<CorpusItem> = Vec::new();
    let mut diagnostics: Vec<String> = Vec::new();
    let mut idx = first;
    let mut tried = 0;
    while items.len() < count && tried < count * 6 {
        let i = idx;
        idx += 1;
        tried += 1;
        let (p, _) = program_for(seed, i as u64);
        if p.rules.is_empty() {
            continue;
        }
        let stem = format!("pg{}", letters(i));
        if excluded.contains(&stem.as_str()) {
            continue;
        }
        let text = lang::print::program(&p);
        match compile_module(&tmp, &stem, &text) {
            Ok(module) => match gen_driver(&p, &module, &stem) {
                Ok(driver) => {
                    write_if_changed(&gen_dir.join(format!("{stem}.eql")), &text)?;
                    write_if_changed(&gen_dir.join(format!("{stem}.eql.rs")), &module)?;
                    write_if_changed(&gen_dir.join(format!("{stem}.driver.rs")), &driver)?;
                    items.push(CorpusItem {
                        stem,
                        text,
                        origin: format!("gen:{seed}:{i}"),
                        program: p,
                    });
                }
                // the emitted text no longer parses: a harness error, never a violation
                Err(e) => return Err(format!("driver generation failed for {stem}: {e}")),
            },
            Err(e) => {
                if e.starts_with("PANIC") {
                    diagnostics.push(format!("DIAGNOSTIC C09 program {i} makes the compiler panic: {e}"));
                } else {
                    diagnostics.push(format!("rejected {i}: {e}"));
                }
            }
        }
    }
    // further thorough batches: other windows of the model-program generators, no repository theories
    let model_first: usize = std::env::var("VGEN_MODEL_FIRST").ok().and_then(|s| s.parse().ok()).unwrap_or(0);
    let skip_repo = std::env::var("VGEN_SKIP_REPO").is_ok();
    // the repository's own test theories, as far as the fragment parser covers them
    let repo = std::env::var("VERIF_REPO").unwrap_or_else(|_| "/repo".into());
    let max_bytes: usize = std::env::var("VGEN_REPO_MAX_BYTES").ok().and_then(|s| s.parse().ok()).unwrap_or(3000);
    let mut files: Vec<PathBuf> = std::fs::read_dir(format!("{repo}/eqlog-test-eval/src"))
        .map(|rd| rd.filter_map(|e| e.ok()).map(|e| e.path()).collect())
        .unwrap_or_default();
    files.sort();
    if skip_repo {
        files.clear();
    }
    let mut skipped: Vec<String> = Vec::new();
    for f in files {
        if f.extension().map(|x| x != "eql").unwrap_or(true) {
            continue;
        }
        let stem0 = f.file_stem().unwrap().to_string_lossy().to_string();
        let stem = format!("rt_{stem0}");
        let text = match std::fs::read_to_string(&f) {
            Ok(t) => t,
            Err(_) => continue,
        };
        if excluded.contains(&stem.as_str()) {
            continue;
        }
        if text.len() > max_bytes {
            skipped.push(format!("{stem0}: larger than {max_bytes} bytes"));
            continue;
        }
        let prog = match lang::parse::parse_program(&text) {
            Ok(p) if !p.rules.is_empty() => p,
            Ok(_) => {
                skipped.push(format!("{stem0}: no rules"));
                continue;
            }
            Err(e) => {
                skipped.push(format!("{stem0}: {e}"));
                continue;
            }
        };
        match compile_module(&tmp, &stem, &text) {
            Ok(module) => match gen_driver(&prog, &module, &stem) {
                Ok(driver) => {
                    write_if_changed(&gen_dir.join(format!("{stem}.eql")), &text)?;
                    write_if_changed(&gen_dir.join(format!("{stem}.eql.rs")), &module)?;
                    write_if_changed(&gen_dir.join(format!("{stem}.driver.rs")), &driver)?;
                    items.push(CorpusItem {
                        stem,
                        text,
                        origin: "parse".to_string(),
                        program: prog,
                    });
                }
                Err(e) => return Err(format!("driver generation failed for {stem}: {e}")),
            },
            Err(e) => skipped.push(format!("{stem0}: compiler says {e}")),
        }
    }
    diagnostics.push(format!("repository theories skipped: {}", skipped.join("; ")));
    let n_models: usize = std::env::var("VGEN_MODELS").ok().and_then(|s| s.parse().ok()).unwrap_or(count / 4);
    for i in model_first..model_first + n_models * 2 {
        if items.iter().filter(|it| it.origin.starts_with("genmodel")).count() >= n_models {
            break;
        }
        let mp = model_program_for(seed, i as u64);
        let stem = format!("pm{}", letters(i));
        if excluded.contains(&stem.as_str()) {
            continue;
        }
        match compile_module(&tmp, &stem, &mp.text) {
            Ok(module) => match gen_driver(&mp.program, &module, &stem) {
                Ok(driver) => {
                    write_if_changed(&gen_dir.join(format!("{stem}.eql")), &mp.text)?;
                    write_if_changed(&gen_dir.join(format!("{stem}.eql.rs")), &module)?;
                    write_if_changed(&gen_dir.join(format!("{stem}.driver.rs")), &driver)?;
                    items.push(CorpusItem {
                        stem,
                        text: mp.text.clone(),
                        origin: format!("genmodel:{seed}:{i}"),
                        program: mp.program,
                    });
                }
                Err(e) => return Err(format!("driver generation failed for {stem}: {e}")),
            },
            Err(e) => diagnostics.push(format!("model program {i} rejected: {e}")),
        }
    }
    let n_members: usize = std::env::var("VGEN_MEMBERS").ok().and_then(|s| s.parse().ok()).unwrap_or(count / 4);
    for i in model_first..model_first + n_members * 2 {
        if items.iter().filter(|it| it.origin.starts_with("genmember")).count() >= n_members {
            break;
        }
        let mp = member_program_for(seed, i as u64);
        let stem = format!("pn{}", letters(i));
        if excluded.contains(&stem.as_str()) {
            continue;
        }
        match compile_module(&tmp, &stem, &mp.text) {
            Ok(module) => match gen_driver(&mp.program, &module, &stem) {
                Ok(driver) => {
                    write_if_changed(&gen_dir.join(format!("{stem}.eql")), &mp.text)?;
                    write_if_changed(&gen_dir.join(format!("{stem}.eql.rs")), &module)?;
                    write_if_changed(&gen_dir.join(format!("{stem}.driver.rs")), &driver)?;
                    items.push(CorpusItem {
                        stem,
                        text: mp.text.clone(),
                        origin: format!("genmember:{seed}:{i}"),
                        program: mp.program,
                    });
                }
                Err(e) => return Err(format!("driver generation failed for {stem}: {e}")),
            },
            Err(e) => diagnostics.push(format!("member-type program {i} rejected: {e}")),
        }
    }
    let _ = std::fs::remove_dir_all(&tmp);
    write_if_changed(&out.join("diagnostics.txt"), &diagnostics.join("\n"))?;
    emit_workspace(out, &items)?;
    println!("corpus: {} programs ({} tried)", items.len(), tried);
    Ok(())
}

pub const PG_CRATES: usize = 8;

fn emit_workspace(out: &Path, items: &[CorpusItem]) -> Result<(), String> {
    let verif = std::env::var("VERIF_DIR").unwrap_or_else(|_| "/verif".into());
    let repo = std::env::var("VERIF_REPO").unwrap_or_else(|_| "/repo".into());
    let n_crates = PG_CRATES.min(items.len().max(1));
    let mut members = Vec::new();
    for c in 0..n_crates {
        let name = format!("pg{c}");
        let dir = out.join(&name);
        std::fs::create_dir_all(dir.join("src")).map_err(|e| e.to_string())?;
        write_if_changed(&dir.join("Cargo.toml"), &format!(
                "[package]\nname = \"{name}\"\nversion = \"0.1.0\"\nedition = \"2024\"\n\n[dependencies]\neqlog-runtime = {{ path = \"{repo}/eqlog-runtime\" }}\nmdrv = {{ path = \"{verif}/modelsim/mdrv\" }}\n"
            ),
        )?;
        let mut lib = String::from("#![allow(warnings)]\n");
        let mut entries = String::from("pub fn entries() -> Vec<mdrv::Entry> { vec![\n");
        for (i, it) in items.iter().enumerate() {
            if i % n_crates != c {
                continue;
            }
            let _ = writeln!(
                lib,
                "pub mod {stem} {{ include!(concat!(env!(\"CARGO_MANIFEST_DIR\"), \"/../gen/{stem}.eql.rs\")); include!(concat!(env!(\"CARGO_MANIFEST_DIR\"), \"/../gen/{stem}.driver.rs\")); }}",
                stem = it.stem
            );
            let _ = writeln!(
                entries,
                "mdrv::Entry {{ name: \"{stem}\", source: include_str!(concat!(env!(\"CARGO_MANIFEST_DIR\"), \"/../gen/{stem}.eql\")), origin: \"{origin}\", new: {stem}::new_model }},",
                stem = it.stem,
                origin = it.origin
            );
        }
        entries.push_str("] }\n");
        lib.push_str(&entries);
        write_if_changed(&dir.join("src/lib.rs"), &lib)?;
        members.push(name);
    }
    // the simulator binary
    let bin = out.join("msbin");
    std::fs::create_dir_all(bin.join("src")).map_err(|e| e.to_string())?;
    let mut deps = String::new();
    let mut calls = String::new();
    for m in &members {
        let _ = writeln!(deps, "{m} = {{ path = \"../{m}\" }}");
        let _ = writeln!(calls, "    v.extend({m}::entries());");
    }
    write_if_changed(&bin.join("Cargo.toml"), &format!(
            "[package]\nname = \"msbin\"\nversion = \"0.1.0\"\nedition = \"2021\"\n\n[dependencies]\nmdrv = {{ path = \"{verif}/modelsim/mdrv\" }}\nmodelsim-sim = {{ path = \"{verif}/modelsim/sim\" }}\n{deps}"
        ),
    )?;
    write_if_changed(&bin.join("src/main.rs"), &format!("fn main() {{\n    let mut v: Vec<mdrv::Entry> = Vec::new();\n{calls}    modelsim_sim::main_with(v);\n}}\n"),
    )?;
    members.push("msbin".into());
    let ms: Vec<String> = members.iter().map(|m| format!("\"{m}\"")).collect();
    write_if_changed(&out.join("Cargo.toml"), &format!(
            "[workspace]\nresolver = \"2\"\nmembers = [{}]\n\n[profile.dev]\ndebug = false\nincremental = false\n\n[profile.dev.package.eqlog-runtime]\nopt-level = 2\n[profile.dev.package.modelsim-sim]\nopt-level = 2\n[profile.dev.package.lang]\nopt-level = 2\n[profile.dev.package.simcore]\nopt-level = 2\n",
            ms.join(", ")
        ),
    )?;
    std::fs::create_dir_all(out.join(".cargo")).map_err(|e| e.to_string())?;
    write_if_changed(&out.join(".cargo/config.toml"), &"[net]\noffline = true\n\n[build]\nrustflags = [\"--cfg\", \"eqlog_verif\"]\n",
    )?;
    let lock = std::fs::read_to_string(format!("{verif}/Cargo.lock")).map_err(|e| e.to_string())?;
    write_if_changed(&out.join("Cargo.lock"), &lock)?;
    Ok(())
}

/// C19: the same programs built through the component path of the real driver (real rayon, real
/// rustc per rule component), wrapped into a crate that links the component libraries.
fn comp_corpus(seed: u64, first: usize, count: usize, out: &Path, runtime_rlib: &Path) -> Result<(), String> {
    let verif = std::env::var("VERIF_DIR").unwrap_or_else(|_| "/verif".into());
    let repo = std::env::var("VERIF_REPO").unwrap_or_else(|_| "/repo".into());
    let gen_dir = out.join("gen");
    std::fs::create_dir_all(&gen_dir).map_err(|e| e.to_string())?;
    let mut items: Vec<CorpusItem> = Vec::new();
    // builds one program through the component path; Ok(false) = rejected (not part of either corpus)
    let mut build_one = |stem: String, text: String, p: Program, origin: String, items: &mut Vec<CorpusItem>| -> Result<bool, String> {
        let dir = gen_dir.join(&stem);
        let in_dir = dir.join("in");
        std::fs::create_dir_all(&in_dir).map_err(|e| e.to_string())?;
        write_if_changed(&in_dir.join(format!("{stem}.eql")), &text)?;
        let config = eqlog::Config {
            in_dir,
            out_dir: dir.join("out"),
            component_build: Some(eqlog::ComponentConfig {
                component_out_dir: dir.join("comp"),
                rustc_path: PathBuf::from("rustc"),
                runtime_rlib_path: runtime_rlib.to_path_buf(),
                debug: false,
                opt_level: "0".to_string(),
            }),
        };
        let r = std::panic::catch_unwind(std::panic::AssertUnwindSafe(|| eqlog::process(&config).map_err(|e| format!("{e}"))));
        match r {
            Ok(Ok(())) => {}
            Ok(Err(_)) | Err(_) => return Ok(false),
        }
        let module = std::fs::read_to_string(dir.join("out").join(format!("{stem}.eql.rs"))).map_err(|e| e.to_string())?;
        let driver = gen_driver(&p, &module, &stem)?;
        write_if_changed(&dir.join(format!("{stem}.driver.rs")), &driver)?;
        items.push(CorpusItem { stem, text, origin, program: p });
        Ok(true)
    };
    let mut idx = first;
    let mut tried = 0;
    while items.len() < count && tried < count * 6 {
        let i = idx;
        idx += 1;
        tried += 1;
        let (p, _) = program_for(seed, i as u64);
        if p.rules.is_empty() {
            continue;
        }
        let stem = format!("pg{}", letters(i));
        let text = lang::print::program(&p);
        build_one(stem, text, p, format!("gen:{seed}:{i}"), &mut items)?;
    }
    // a few programs with a model declaration (both families): their member relations have own /
    // all index copies and their modules call recompute_model_indices around the rule components
    let n_models = (count / 4).max(1);
    let mut got = 0;
    for i in 0..n_models * 2 {
        if got >= n_models {
            break;
        }
        let mp = model_program_for(seed, i as u64);
        if build_one(format!("pm{}", letters(i)), mp.text.clone(), mp.program, format!("genmodel:{seed}:{i}"), &mut items)? {
            got += 1;
        }
    }
    let mut got = 0;
    for i in 0..n_models * 2 {
        if got >= n_models {
            break;
        }
        let mp = member_program_for(seed, i as u64);
        if build_one(format!("pn{}", letters(i)), mp.text.clone(), mp.program, format!("genmember:{seed}:{i}"), &mut items)? {
            got += 1;
        }
    }
    // one crate that includes the component-build modules and links the component libraries
    let dir = out.join("pgc");
    std::fs::create_dir_all(dir.join("src")).map_err(|e| e.to_string())?;
    write_if_changed(
        &dir.join("Cargo.toml"),
        &format!(
            "[package]\nname = \"pgc\"\nversion = \"0.1.0\"\nedition = \"2024\"\nbuild = \"build.rs\"\n\n[dependencies]\neqlog-runtime = {{ path = \"{repo}/eqlog-runtime\" }}\nmdrv = {{ path = \"{verif}/modelsim/mdrv\" }}\n"
        ),
    )?;
    let mut build_rs = String::from("fn main() {\n");
    let mut lib = String::from("#![allow(warnings)]\n");
    let mut entries = String::from("pub fn entries() -> Vec<mdrv::Entry> { vec![\n");
    for it in &items {
        let comp_dir = gen_dir.join(&it.stem).join("comp").join(format!("{}.eql", it.stem));
        let _ = writeln!(build_rs, "    println!(\"cargo:rustc-link-search=native={}\");", comp_dir.display());
        let mut libs: Vec<String> = std::fs::read_dir(&comp_dir)
            .map_err(|e| format!("{}: {e}", comp_dir.display()))?
            .filter_map(|e| e.ok())
            .map(|e| e.file_name().to_string_lossy().to_string())
            .filter(|n| n.ends_with(".rlib"))
            .collect();
        libs.sort();
        for l in libs {
            let _ = writeln!(build_rs, "    println!(\"cargo:rustc-link-lib=static:+verbatim={l}\");");
        }
        let base = gen_dir.join(&it.stem);
        let _ = writeln!(
            lib,
            "pub mod {stem} {{ include!(\"{m}\"); include!(\"{d}\"); }}",
            stem = it.stem,
            m = base.join("out").join(format!("{}.eql.rs", it.stem)).display(),
            d = base.join(format!("{}.driver.rs", it.stem)).display()
        );
        let _ = writeln!(
            entries,
            "mdrv::Entry {{ name: \"{stem}\", source: include_str!(\"{src}\"), origin: \"{origin}\", new: {stem}::new_model }},",
            stem = it.stem,
            src = base.join("in").join(format!("{}.eql", it.stem)).display(),
            origin = it.origin
        );
    }
    build_rs.push_str("}\n");
    entries.push_str("] }\n");
    lib.push_str(&entries);
    write_if_changed(&dir.join("build.rs"), &build_rs)?;
    write_if_changed(&dir.join("src/lib.rs"), &lib)?;
    let bin = out.join("msbincomp");
    std::fs::create_dir_all(bin.join("src")).map_err(|e| e.to_string())?;
    write_if_changed(
        &bin.join("Cargo.toml"),
        &format!(
            "[package]\nname = \"msbincomp\"\nversion = \"0.1.0\"\nedition = \"2021\"\n\n[dependencies]\nmdrv = {{ path = \"{verif}/modelsim/mdrv\" }}\nmodelsim-sim = {{ path = \"{verif}/modelsim/sim\" }}\npgc = {{ path = \"../pgc\" }}\n"
        ),
    )?;
    write_if_changed(&bin.join("src/main.rs"), "fn main() {\n    modelsim_sim::main_with(pgc::entries());\n}\n")?;
    write_if_changed(
        &out.join("Cargo.toml"),
        "[workspace]\nresolver = \"2\"\nmembers = [\"pgc\", \"msbincomp\"]\n\n[profile.dev]\ndebug = false\nincremental = false\n\n[profile.dev.package.eqlog-runtime]\nopt-level = 2\n[profile.dev.package.modelsim-sim]\nopt-level = 2\n[profile.dev.package.lang]\nopt-level = 2\n[profile.dev.package.simcore]\nopt-level = 2\n",
    )?;
    std::fs::create_dir_all(out.join(".cargo")).map_err(|e| e.to_string())?;
    write_if_changed(&out.join(".cargo/config.toml"), "[net]\noffline = true\n\n[build]\nrustflags = [\"--cfg\", \"eqlog_verif\"]\n")?;
    let lock = std::fs::read_to_string(format!("{verif}/Cargo.lock")).map_err(|e| e.to_string())?;
    write_if_changed(&out.join("Cargo.lock"), &lock)?;
    println!("compcorpus: {} programs ({} tried)", items.len(), tried);
    Ok(())
}
