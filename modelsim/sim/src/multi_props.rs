//! Properties that compare several runs: C02 (real vs reference chase), C03 (schedules of one
//! fact set), C07 (cancellation and resumption), C16 (new/old labellings of one tuple set).

use crate::core::*;
use crate::hist_props::RunInfo;
use crate::monitors::check_c01;
use crate::Fail;
use lang::ast::*;
use lang::structure::{chase, ChaseError, Structure};
use mdrv::DynModel;
use simcore::cli::{ShardStats, WorkerArgs};
use simcore::minimize::ddmin;
use simcore::rng::derive_seed;
use simcore::{Fnv, Json, Rng, Violation};
use std::cell::RefCell;
use std::collections::BTreeMap;

pub const REF_MAX_ELEMENTS: usize = 150;
pub const REF_MAX_DEF_ROUNDS: usize = 60;

fn inconclusive() -> RunInfo {
    RunInfo {
        budget_hit: true,
        ..RunInfo::default()
    }
}

// ---------------------------------------------------------------------------------------------
// C02

/// Argument references select from the elements handed to the caller so far (tie table).
fn tie_args(ties: &[Vec<(u32, u32)>], sorts: &[usize], refs: &[Ref]) -> Option<(Vec<u32>, Vec<u32>)> {
    let mut real = Vec::new();
    let mut rf = Vec::new();
    for (s, r) in sorts.iter().zip(refs.iter()) {
        let t = &ties[*s];
        if t.is_empty() {
            return None;
        }
        let (a, b) = t[(*r as usize) % t.len()];
        real.push(a);
        rf.push(b);
    }
    Some((real, rf))
}

pub fn run_c02(prog: &Prog, ops: &[Op]) -> Result<RunInfo, Fail> {
    let p = &prog.program;
    let mut m = (prog.new)();
    let mut asserted = Structure::new(p);
    let mut ties: Vec<Vec<(u32, u32)>> = vec![Vec::new(); p.sorts.len()];
    let mut info = RunInfo::default();
    let mut total_polls = 0u32;
    for op in ops.iter().chain(std::iter::once(&Op::Close)) {
        info.steps += 1;
        match op {
            Op::NewEl { sort } => {
                if p.sorts[*sort].kind != SortKind::Plain {
                    continue;
                }
                let a = m.new_el(*sort);
                let b = asserted.new_el(*sort);
                ties[*sort].push((a, b));
            }
            // member-type programs are only simulated by C17
            Op::NewMember { .. } => continue,
            Op::NewEnum { ctor: rel, args } | Op::Define { rel, args } => {
                let r = &p.rels[*rel];
                if !r.is_func() {
                    continue;
                }
                if let Some((ra, fa)) = tie_args(&ties, &r.args, args) {
                    if let Some(a) = m.define(*rel, &ra) {
                        let b = asserted.define(*rel, &fa);
                        ties[r.result.unwrap()].push((a, b));
                    }
                }
            }
            Op::Insert { rel, args } => {
                if let Some((ra, fa)) = tie_args(&ties, &p.rels[*rel].column_sorts(), args) {
                    m.insert(*rel, &ra);
                    asserted.insert(*rel, &fa);
                }
            }
            Op::Equate { sort, a, b } => {
                if let Some((ra, fa)) = tie_args(&ties, &[*sort, *sort], &[*a, *b]) {
                    m.equate(*sort, ra[0], ra[1]);
                    asserted.equate(*sort, fa[0], fa[1]);
                    info.merges_between_closes += 1;
                }
            }
            Op::Close | Op::CloseUntil { .. } => {
                let n_before: usize = (0..p.sorts.len()).map(|s| m.n_ids(s)).sum();
                if let OpResult::Closed { polls, budget_hit, .. } = budgeted_close(prog, m.as_mut(), None, &|_, _| {}) {
                    total_polls += polls;
                    info.polls += polls as u64;
                    info.max_polls_in_close = info.max_polls_in_close.max(polls);
                    if budget_hit {
                        info.budget_hit = true;
                        break;
                    }
                    info.closes_completed += 1;
                    let n_after: usize = (0..p.sorts.len()).map(|s| m.n_ids(s)).sum();
                    info.new_elements_by_close += (n_after - n_before) as u64;
                }
            }
        }
    }
    if info.budget_hit {
        // no listed property promises termination of non-surjective programs within a given number
        // of iterations: inconclusive, not a violation
        return Ok(inconclusive());
    }
    // the reference: least model of the asserted facts and equalities
    let mut reference = asserted.clone();
    match chase(p, &prog.paths, &mut reference, REF_MAX_ELEMENTS, REF_MAX_DEF_ROUNDS) {
        Ok(ci) => {
            if info.budget_hit {
                // no listed property promises termination of non-surjective programs within a
                // given number of iterations: inconclusive, not a violation
                let _ = (ci, total_polls);
                return Ok(inconclusive());
            }
        }
        Err(ChaseError::Diverged) => return Ok(inconclusive()),
        Err(ChaseError::Uninterpretable(e)) => return Err(("harness".into(), format!("reference cannot interpret the program: {e}"))),
    }
    let real = dump(prog, m.as_ref());
    let real_st = real.to_structure(p);
    let mut seeds = Vec::new();
    for (s, t) in ties.iter().enumerate() {
        for (a, b) in t {
            seeds.push((s, *a, *b));
        }
    }
    check_iso(p, &real_st, &reference, &seeds, "the closed model", "the reference chase")?;
    info.checks = 1;
    info.final_fingerprint = real.hash();
    Ok(info)
}

// ---------------------------------------------------------------------------------------------
// C03

#[derive(Clone, Debug, PartialEq)]
pub enum Fact {
    El(usize),
    Def(usize, Vec<usize>),
    Tuple(usize, Vec<usize>),
    Eq(usize, usize, usize),
}

fn fact_to_json(f: &Fact) -> Json {
    let names = |v: &Vec<usize>| Json::Arr(v.iter().map(|x| Json::Int(*x as i64)).collect());
    match f {
        Fact::El(s) => Json::Arr(vec![Json::str("el"), Json::Int(*s as i64)]),
        Fact::Def(r, a) => Json::Arr(vec![Json::str("def"), Json::Int(*r as i64), names(a)]),
        Fact::Tuple(r, a) => Json::Arr(vec![Json::str("tuple"), Json::Int(*r as i64), names(a)]),
        Fact::Eq(s, a, b) => Json::Arr(vec![Json::str("eq"), Json::Int(*s as i64), Json::Int(*a as i64), Json::Int(*b as i64)]),
    }
}

fn fact_from_json(j: &Json) -> Option<Fact> {
    let a = j.as_arr()?;
    let names = |j: &Json| -> Option<Vec<usize>> { j.as_arr()?.iter().map(|x| x.as_u64().map(|v| v as usize)).collect() };
    Some(match a.first()?.as_str()? {
        "el" => Fact::El(a.get(1)?.as_u64()? as usize),
        "def" => Fact::Def(a.get(1)?.as_u64()? as usize, names(a.get(2)?)?),
        "tuple" => Fact::Tuple(a.get(1)?.as_u64()? as usize, names(a.get(2)?)?),
        "eq" => Fact::Eq(a.get(1)?.as_u64()? as usize, a.get(2)?.as_u64()? as usize, a.get(3)?.as_u64()? as usize),
        _ => return None,
    })
}

/// Names are introduced by El and Def facts, in fact order: name k = k-th naming fact.
fn naming_facts(facts: &[Fact]) -> Vec<usize> {
    facts.iter().enumerate().filter(|(_, f)| matches!(f, Fact::El(_) | Fact::Def(_, _))).map(|(i, _)| i).collect()
}

fn name_sorts(p: &Program, facts: &[Fact]) -> Vec<usize> {
    facts
        .iter()
        .filter_map(|f| match f {
            Fact::El(s) => Some(*s),
            Fact::Def(r, _) => p.rels[*r].result,
            _ => None,
        })
        .collect()
}

pub fn gen_facts(prog: &Prog, rng: &mut Rng) -> Vec<Fact> {
    let p = &prog.program;
    let mut facts = Vec::new();
    let mut names: Vec<usize> = Vec::new(); // sort of each name
    let plain: Vec<usize> = (0..p.sorts.len()).filter(|s| p.sorts[*s].kind == SortKind::Plain).collect();
    let funcs: Vec<usize> = (0..p.rels.len()).filter(|r| p.rels[*r].is_func()).collect();
    for s in &plain {
        for _ in 0..rng.range(1, 3) {
            facts.push(Fact::El(*s));
            names.push(*s);
        }
    }
    let pick = |rng: &mut Rng, names: &Vec<usize>, sort: usize| -> Option<usize> {
        let c: Vec<usize> = (0..names.len()).filter(|i| names[*i] == sort).collect();
        if c.is_empty() {
            None
        } else {
            Some(*rng.pick(&c))
        }
    };
    let n = rng.range(2, 14);
    for _ in 0..n {
        match rng.weighted(&[2, 2, 8, 2]) {
            0 => {
                if !plain.is_empty() {
                    let s = *rng.pick(&plain);
                    facts.push(Fact::El(s));
                    names.push(s);
                }
            }
            1 => {
                if funcs.is_empty() {
                    continue;
                }
                let r = *rng.pick(&funcs);
                let args: Option<Vec<usize>> = p.rels[r].args.iter().map(|s| pick(rng, &names, *s)).collect();
                if let Some(args) = args {
                    facts.push(Fact::Def(r, args));
                    names.push(p.rels[r].result.unwrap());
                }
            }
            2 => {
                if p.rels.is_empty() {
                    continue;
                }
                let r = rng.usize_below(p.rels.len());
                let args: Option<Vec<usize>> = p.rels[r].column_sorts().iter().map(|s| pick(rng, &names, *s)).collect();
                if let Some(args) = args {
                    facts.push(Fact::Tuple(r, args));
                }
            }
            _ => {
                if p.sorts.is_empty() {
                    continue;
                }
                let s = rng.usize_below(p.sorts.len());
                if let (Some(a), Some(b)) = (pick(rng, &names, s), pick(rng, &names, s)) {
                    facts.push(Fact::Eq(s, a, b));
                }
            }
        }
    }
    facts
}

/// A schedule: indices into the fact list (may repeat non-naming facts), -1 = close().
pub fn gen_schedule(facts: &[Fact], rng: &mut Rng, one_shot: bool) -> Vec<i64> {
    let naming = naming_facts(facts);
    let name_of_fact: BTreeMap<usize, usize> = naming.iter().enumerate().map(|(k, i)| (*i, k)).collect();
    let deps = |f: &Fact| -> Vec<usize> {
        match f {
            Fact::El(_) => vec![],
            Fact::Def(_, a) | Fact::Tuple(_, a) => a.clone(),
            Fact::Eq(_, a, b) => vec![*a, *b],
        }
    };
    let mut done_names: Vec<bool> = vec![false; naming.len()];
    let mut remaining: Vec<usize> = (0..facts.len()).collect();
    let mut out: Vec<i64> = Vec::new();
    let close_rate = if one_shot { 0 } else { rng.range(0, 30) };
    let dup_rate = if one_shot { 0 } else { *rng.pick(&[0u64, 10, 30]) };
    while !remaining.is_empty() {
        let ready: Vec<usize> = remaining.iter().copied().filter(|i| deps(&facts[*i]).iter().all(|n| done_names[*n])).collect();
        if ready.is_empty() {
            break;
        }
        let i = if one_shot { ready[0] } else { *rng.pick(&ready) };
        remaining.retain(|x| *x != i);
        out.push(i as i64);
        if let Some(k) = name_of_fact.get(&i) {
            done_names[*k] = true;
        }
        if !one_shot {
            if !matches!(facts[i], Fact::El(_)) && rng.below(100) < dup_rate {
                out.push(i as i64);
            }
            // re-assert something that was asserted earlier
            if rng.below(100) < dup_rate / 2 {
                let earlier: Vec<i64> = out.iter().copied().filter(|x| *x >= 0 && !matches!(facts[*x as usize], Fact::El(_))).collect();
                if !earlier.is_empty() {
                    out.push(*rng.pick(&earlier));
                }
            }
            if rng.below(100) < close_rate {
                out.push(-1);
            }
        }
    }
    out
}

struct SchedRun {
    dump: Dump,
    /// id of every name
    ids: Vec<Option<u32>>,
    polls: u64,
    closes: u64,
    budget_hit: bool,
    new_elements: u64,
}

fn run_schedule(prog: &Prog, facts: &[Fact], sched: &[i64], check_idempotence: bool) -> Result<SchedRun, Fail> {
    let p = &prog.program;
    let naming = naming_facts(facts);
    let name_of_fact: BTreeMap<usize, usize> = naming.iter().enumerate().map(|(k, i)| (*i, k)).collect();
    let mut ids: Vec<Option<u32>> = vec![None; naming.len()];
    let mut m = (prog.new)();
    let mut run = SchedRun {
        dump: dump(prog, m.as_ref()),
        ids: Vec::new(),
        polls: 0,
        closes: 0,
        budget_hit: false,
        new_elements: 0,
    };
    let resolve_names = |ids: &Vec<Option<u32>>, a: &[usize]| -> Option<Vec<u32>> { a.iter().map(|n| ids.get(*n).copied().flatten()).collect() };
    for step in sched.iter().copied().chain(std::iter::once(-1)) {
        if step < 0 {
            let before: usize = (0..p.sorts.len()).map(|s| m.n_ids(s)).sum();
            if let OpResult::Closed { polls, budget_hit, .. } = budgeted_close(prog, m.as_mut(), None, &|_, _| {}) {
                run.polls += polls as u64;
                run.closes += 1;
                if budget_hit {
                    run.budget_hit = true;
                    return Ok(run);
                }
            }
            let after: usize = (0..p.sorts.len()).map(|s| m.n_ids(s)).sum();
            run.new_elements += (after - before) as u64;
            continue;
        }
        let i = step as usize;
        match facts.get(i) {
            None => continue,
            Some(Fact::El(s)) => {
                let k = name_of_fact[&i];
                if ids[k].is_none() && p.sorts[*s].kind == SortKind::Plain {
                    ids[k] = Some(m.new_el(*s));
                }
            }
            Some(Fact::Def(r, a)) => {
                if let Some(args) = resolve_names(&ids, a) {
                    if let Some(id) = m.define(*r, &args) {
                        let k = name_of_fact[&i];
                        // (a re-asserted definition may return a different, not yet merged value
                        // while the graph is multi-valued before a close: the first result names it)
                        if ids[k].is_none() {
                            ids[k] = Some(id);
                        }
                    }
                }
            }
            Some(Fact::Tuple(r, a)) => {
                if let Some(args) = resolve_names(&ids, a) {
                    m.insert(*r, &args);
                }
            }
            Some(Fact::Eq(s, a, b)) => {
                if let Some(args) = resolve_names(&ids, &[*a, *b]) {
                    m.equate(*s, args[0], args[1]);
                }
            }
        }
    }
    run.dump = dump(prog, m.as_ref());
    if check_idempotence {
        // close() on a closed model changes nothing observable (ids, iteration order included)
        if let OpResult::Closed { budget_hit, .. } = budgeted_close(prog, m.as_mut(), None, &|_, _| {}) {
            if budget_hit {
                return Err(("close-not-idempotent".into(), "a second close() of a closed model does not terminate".into()));
            }
        }
        let d2 = dump(prog, m.as_ref());
        if d2 != run.dump {
            return Err(("close-not-idempotent".into(), format!("a second close() changed the model: {:?} -> {:?}", run.dump, d2)));
        }
    }
    run.ids = ids;
    Ok(run)
}

pub fn c03_case(prog: &Prog, facts: &[Fact], scheds: &[Vec<i64>]) -> Json {
    Json::obj(vec![
        ("kind", Json::str("c03")),
        ("prop", Json::str("C03")),
        ("program", Json::str(&prog.name)),
        ("source", Json::str(&prog.source)),
        ("facts", Json::Arr(facts.iter().map(fact_to_json).collect())),
        (
            "schedules",
            Json::Arr(scheds.iter().map(|s| Json::Arr(s.iter().map(|x| Json::Int(*x)).collect())).collect()),
        ),
    ])
}

pub fn run_c03_case(prog: &Prog, case: &Json) -> Result<Result<RunInfo, Fail>, String> {
    let facts: Vec<Fact> = case
        .get("facts")
        .and_then(|f| f.as_arr())
        .ok_or("c03: facts")?
        .iter()
        .map(fact_from_json)
        .collect::<Option<Vec<_>>>()
        .ok_or("c03: bad fact")?;
    let scheds: Vec<Vec<i64>> = case
        .get("schedules")
        .and_then(|f| f.as_arr())
        .ok_or("c03: schedules")?
        .iter()
        .map(|s| s.as_arr().map(|a| a.iter().filter_map(|x| x.as_i64()).collect()))
        .collect::<Option<Vec<_>>>()
        .ok_or("c03: bad schedule")?;
    Ok(run_c03(prog, &facts, &scheds))
}

pub fn run_c03(prog: &Prog, facts: &[Fact], scheds: &[Vec<i64>]) -> Result<RunInfo, Fail> {
    let p = &prog.program;
    let mut info = RunInfo::default();
    let sorts = name_sorts(p, facts);
    let mut runs = Vec::new();
    for (i, s) in scheds.iter().enumerate() {
        let r = run_schedule(prog, facts, s, i == 0).map_err(|(c, m)| (c, format!("schedule {i}: {m}")))?;
        info.steps += s.len() as u64;
        info.polls += r.polls;
        info.closes_completed += r.closes;
        info.new_elements_by_close += r.new_elements;
        if r.budget_hit {
            return Ok(inconclusive());
        }
        runs.push(r);
    }
    let base = &runs[0];
    let base_st = base.dump.to_structure(p);
    for (i, r) in runs.iter().enumerate().skip(1) {
        let st = r.dump.to_structure(p);
        let mut seeds = Vec::new();
        for (k, s) in sorts.iter().enumerate() {
            if let (Some(a), Some(b)) = (r.ids[k], base.ids[k]) {
                seeds.push((*s, a, b));
            }
        }
        check_iso(p, &st, &base_st, &seeds, &format!("the model built by schedule {i}"), "the model built in one shot")
            .map_err(|(c, m)| (c, format!("same facts, different histories: {m}")))?;
        // the element sets as the public iterators list them are part of "the same model"
        for s in 0..p.sorts.len() {
            if r.dump.roots[s].len() != base.dump.roots[s].len() {
                return Err((
                    "element-count-differs".into(),
                    format!(
                        "same facts, different histories: iter_{} yields {} elements after schedule {i} but {} after the one-shot history",
                        p.sort_snake(s),
                        r.dump.roots[s].len(),
                        base.dump.roots[s].len()
                    ),
                ));
            }
        }
        info.checks += 1;
    }
    info.final_fingerprint = base.dump.hash();
    Ok(info)
}

// ---------------------------------------------------------------------------------------------
// C07

/// All positive facts of a dump hold in the model (a monotone, state-based condition).
fn facts_hold(prog: &Prog, d: &Dump, m: &dyn DynModel) -> bool {
    let p = &prog.program;
    for s in 0..p.sorts.len() {
        if m.n_ids(s) < d.n_ids[s] {
            return false;
        }
        for (x, r) in d.root_of[s].iter().enumerate() {
            if !m.are_equal(s, x as u32, *r) {
                return false;
            }
        }
    }
    for (r, ts) in d.rels.iter().enumerate() {
        for t in ts {
            if !m.holds(r, t) {
                return false;
            }
        }
    }
    true
}

pub fn run_c07(prog: &Prog, ops: &[Op], k: Option<u32>, again: bool) -> Result<RunInfo, Fail> {
    let p = &prog.program;
    let mut info = RunInfo::default();
    // split: assertions before the cancelled close | assertions after it ("more")
    let cut = ops.iter().position(|o| matches!(o, Op::CloseUntil { .. })).unwrap_or(ops.len());
    let pre: Vec<Op> = ops[..cut].iter().filter(|o| !matches!(o, Op::CloseUntil { .. })).cloned().collect();
    let more: Vec<Op> = ops[cut.min(ops.len())..].iter().filter(|o| !matches!(o, Op::CloseUntil { .. } | Op::Close)).cloned().collect();
    // caller-created ids per sort, in op order. `tied`: argument references select from them
    // (the assertions after the cancelled close must denote the same elements in every run,
    // whatever ids the closes have allocated in between)
    let apply_all = |m: &mut dyn DynModel, ops: &[Op], ties: &mut Vec<Vec<u32>>, tied: bool| -> bool {
        for op in ops.iter() {
            if tied {
                let pick = |ties: &Vec<Vec<u32>>, sorts: &[usize], refs: &[Ref]| -> Option<Vec<u32>> {
                    sorts
                        .iter()
                        .zip(refs.iter())
                        .map(|(s, r)| if ties[*s].is_empty() { None } else { Some(ties[*s][(*r as usize) % ties[*s].len()]) })
                        .collect()
                };
                match op {
                    Op::NewEl { sort } => {
                        if p.sorts[*sort].kind == SortKind::Plain {
                            let id = m.new_el(*sort);
                            ties[*sort].push(id);
                        }
                    }
                    Op::Define { rel, args } | Op::NewEnum { ctor: rel, args } => {
                        if let Some(a) = pick(ties, &p.rels[*rel].args, args) {
                            if let Some(id) = m.define(*rel, &a) {
                                ties[p.rels[*rel].result.unwrap()].push(id);
                            }
                        }
                    }
                    Op::Insert { rel, args } => {
                        if let Some(a) = pick(ties, &p.rels[*rel].column_sorts(), args) {
                            m.insert(*rel, &a);
                        }
                    }
                    Op::Equate { sort, a, b } => {
                        if let Some(a) = pick(ties, &[*sort, *sort], &[*a, *b]) {
                            m.equate(*sort, a[0], a[1]);
                        }
                    }
                    _ => {}
                }
                continue;
            }
            let (res, _) = apply_op(prog, m, op, &|_, _| {});
            match (&res, op) {
                (OpResult::Id(id), Op::NewEl { sort }) => ties[*sort].push(*id),
                (OpResult::Id(id), Op::Define { rel, .. }) | (OpResult::Id(id), Op::NewEnum { ctor: rel, .. }) => ties[p.rels[*rel].result.unwrap()].push(*id),
                (OpResult::Closed { budget_hit: true, .. }, _) => return false,
                _ => {}
            }
        }
        true
    };
    // dry run: direct close, recording the public dump at every poll
    let mut a = (prog.new)();
    let mut ties_a = vec![Vec::new(); p.sorts.len()];
    if !apply_all(a.as_mut(), &pre, &mut ties_a, false) {
        return Ok(inconclusive());
    }
    let dumps: RefCell<Vec<Dump>> = RefCell::new(Vec::new());
    let res = budgeted_close(prog, a.as_mut(), None, &|v, _| dumps.borrow_mut().push(dump(prog, v)));
    let n_polls = match res {
        OpResult::Closed { budget_hit: true, .. } => return Ok(inconclusive()),
        OpResult::Closed { polls, .. } => polls,
        _ => unreachable!(),
    };
    let dumps = dumps.into_inner();
    let k = match k {
        Some(k) if k < n_polls => k,
        _ => return Ok(inconclusive()),
    };
    info.max_polls_in_close = n_polls;
    // the direct-close model of (pre ++ more)
    let mut c = (prog.new)();
    let mut ties_c = vec![Vec::new(); p.sorts.len()];
    if !apply_all(c.as_mut(), &pre, &mut ties_c, false) {
        return Ok(inconclusive());
    }
    if !more.is_empty() && !apply_all(c.as_mut(), &more, &mut ties_c, true) {
        return Ok(inconclusive());
    }
    if let OpResult::Closed { budget_hit: true, .. } = budgeted_close(prog, c.as_mut(), None, &|_, _| {}) {
        return Ok(inconclusive());
    }
    let final_c = dump(prog, c.as_ref());
    let final_c_st = final_c.to_structure(p);
    // the cancelled run
    let mut b = (prog.new)();
    let mut ties_b = vec![Vec::new(); p.sorts.len()];
    apply_all(b.as_mut(), &pre, &mut ties_b, false);
    let target = &dumps[k as usize];
    let polls = std::cell::Cell::new(0u32);
    let ret = b.close_until(&|v: &dyn DynModel| {
        polls.set(polls.get() + 1);
        polls.get() > POLL_BUDGET + 5 || facts_hold(prog, target, v)
    });
    info.polls += polls.get() as u64;
    if polls.get() > POLL_BUDGET + 5 {
        return Err((
            "cancel-missed".into(),
            format!("condition = facts of the state at poll {k} of a direct close; close_until ran {} polls without the condition becoming true", polls.get()),
        ));
    }
    if ret {
        info.closes_cancelled += 1;
        if !facts_hold(prog, target, b.as_ref()) {
            return Err(("true-without-condition".into(), format!("close_until returned true (poll {}) but its condition does not hold", polls.get())));
        }
        if again {
            // a second close_until whose (monotone) condition already holds on entry: it must
            // return true at once and must not disturb what the first call left pending
            let polls2 = std::cell::Cell::new(0u32);
            let ret2 = b.close_until(&|v: &dyn DynModel| {
                polls2.set(polls2.get() + 1);
                polls2.get() > 3 || facts_hold(prog, target, v)
            });
            if !ret2 || polls2.get() > 1 {
                return Err((
                    "condition-not-monotone".into(),
                    format!("a second close_until with the same condition returned {ret2} after {} polls although the condition held on entry", polls2.get()),
                ));
            }
            info.closes_cancelled += 1;
        }
    } else {
        if facts_hold(prog, target, b.as_ref()) {
            return Err(("false-with-condition".into(), "close_until returned false although its condition holds".into()));
        }
        check_c01(prog, b.as_ref()).map_err(|(c, m)| (format!("false-but-not-closed/{c}"), m))?;
    }
    // the stopped state lies inside the free model (ids are deterministic, C20)
    {
        let stopped = dump(prog, b.as_ref());
        let free = dump(prog, a.as_ref());
        let free_st = free.to_structure(p);
        for s in 0..p.sorts.len() {
            if stopped.n_ids[s] > free.n_ids[s] {
                return Err((
                    "stopped-state-not-free".into(),
                    format!("the stopped state has {} ids of sort {} but the closed model only {}", stopped.n_ids[s], p.sorts[s].name, free.n_ids[s]),
                ));
            }
            for (x, r) in stopped.root_of[s].iter().enumerate() {
                if !free_st.are_equal(s, x as u32, *r) {
                    return Err((
                        "stopped-state-not-free".into(),
                        format!("the stopped state equates {}#{x} and #{r}, the closed model does not", p.sorts[s].name),
                    ));
                }
            }
        }
        for (r, ts) in stopped.rels.iter().enumerate() {
            for t in ts {
                if !free_st.holds(r, t) {
                    return Err((
                        "stopped-state-not-free".into(),
                        format!("the stopped state contains {}{:?}, the closed model does not", p.rels[r].name, t),
                    ));
                }
            }
        }
    }
    // resume
    if !more.is_empty() {
        if !apply_all(b.as_mut(), &more, &mut ties_b, true) {
            return Ok(inconclusive());
        }
    }
    if let OpResult::Closed { budget_hit, polls, .. } = budgeted_close(prog, b.as_mut(), None, &|_, _| {}) {
        info.polls += polls as u64;
        if budget_hit {
            // the budgets are the harness' own limits (polls, ids, tuples); the cancelled-and-resumed
            // run allocates other intermediate ids than the direct one, so hitting a budget here says
            // nothing about eqlog: not judged
            return Ok(inconclusive());
        }
    }
    info.closes_completed += 1;
    let final_b = dump(prog, b.as_ref());
    let final_b_st = final_b.to_structure(p);
    let mut seeds = Vec::new();
    for s in 0..p.sorts.len() {
        for (x, y) in ties_b[s].iter().zip(ties_c[s].iter()) {
            seeds.push((s, *x, *y));
        }
    }
    // the resumed model must itself be closed
    check_c01(prog, b.as_ref()).map_err(|(c, m)| (format!("resumed-not-closed/{c}"), m))?;
    check_iso(p, &final_b_st, &final_c_st, &seeds, "the model closed after an early return", "the model closed directly")?;
    info.checks += 1;
    info.final_fingerprint = final_b.hash() ^ (k as u64).wrapping_mul(0x9e3779b97f4a7c15);
    Ok(info)
}

// ---------------------------------------------------------------------------------------------
// C16

/// What one iteration's rule functions push, per (rule group, delta field, row). The implicit
/// single-valuedness rule of a function is symmetric in its two atoms and is covered up to that
/// symmetry: its equality rows are taken as unordered pairs.
fn pushes(m: &mut dyn DynModel) -> BTreeMap<(String, String, Vec<u32>), u32> {
    let mut out = BTreeMap::new();
    for (g, f, rows) in m.priv_run_rules() {
        for mut r in rows {
            if g.starts_with("functionality_") {
                r.sort();
            }
            *out.entry((g.clone(), f.clone(), r)).or_insert(0) += 1;
        }
    }
    out
}

fn apply_plain(prog: &Prog, m: &mut dyn DynModel, ops: &[Op]) {
    for op in ops {
        if matches!(op, Op::Close | Op::CloseUntil { .. } | Op::Equate { .. }) {
            continue;
        }
        apply_op(prog, m, op, &|_, _| {});
    }
}

pub fn c16_case(prog: &Prog, old_ops: &[Op], new_ops: &[Op]) -> Json {
    Json::obj(vec![
        ("kind", Json::str("c16")),
        ("prop", Json::str("C16")),
        ("program", Json::str(&prog.name)),
        ("source", Json::str(&prog.source)),
        ("old_ops", ops_to_json(old_ops)),
        ("new_ops", ops_to_json(new_ops)),
        ("old_readable", Json::arr_str(&old_ops.iter().map(|o| o.show(&prog.program)).collect::<Vec<_>>())),
        ("new_readable", Json::arr_str(&new_ops.iter().map(|o| o.show(&prog.program)).collect::<Vec<_>>())),
    ])
}

pub fn run_c16_case(prog: &Prog, case: &Json) -> Result<Result<RunInfo, Fail>, String> {
    let old_ops = case.get("old_ops").and_then(ops_from_json).ok_or("c16: old_ops")?;
    let new_ops = case.get("new_ops").and_then(ops_from_json).ok_or("c16: new_ops")?;
    Ok(run_c16(prog, &old_ops, &new_ops))
}

pub fn run_c16(prog: &Prog, old_ops: &[Op], new_ops: &[Op]) -> Result<RunInfo, Fail> {
    let mut info = RunInfo::default();
    // labelled: old part aged, new part new
    let mut l = (prog.new)();
    apply_plain(prog, l.as_mut(), old_ops);
    l.priv_move_new_to_old();
    apply_plain(prog, l.as_mut(), new_ops);
    let pl = pushes(l.as_mut());
    // everything new
    let mut all = (prog.new)();
    apply_plain(prog, all.as_mut(), old_ops);
    apply_plain(prog, all.as_mut(), new_ops);
    // the two builds must denote the same model (same ids, same tuples), only the ages differ
    let (da, dl) = (dump(prog, all.as_ref()), dump(prog, l.as_ref()));
    if da.n_ids != dl.n_ids || da.root_of != dl.root_of || da.to_structure(&prog.program) != dl.to_structure(&prog.program) {
        return Err(("harness".into(), "labelled and unlabelled builds differ".into()));
    }
    let pa = pushes(all.as_mut());
    // only the old part, everything new
    let mut o = (prog.new)();
    apply_plain(prog, o.as_mut(), old_ops);
    let po = pushes(o.as_mut());
    // everything old: nothing may be enumerated
    let mut ao = (prog.new)();
    apply_plain(prog, ao.as_mut(), old_ops);
    apply_plain(prog, ao.as_mut(), new_ops);
    ao.priv_move_new_to_old();
    let pao = pushes(ao.as_mut());
    info.steps = (old_ops.len() + new_ops.len()) as u64;
    // rules with an empty premise run in every iteration by design (semi_naive.rs); what an empty
    // model pushes is exactly their contribution, and it is taken out of every count
    let mut fresh = (prog.new)();
    let base = pushes(fresh.as_mut());
    let minus = |m: BTreeMap<(String, String, Vec<u32>), u32>| -> BTreeMap<(String, String, Vec<u32>), u32> {
        m.into_iter()
            .filter_map(|(k, n)| {
                let b = base.get(&k).copied().unwrap_or(0);
                if n > b {
                    Some((k, n - b))
                } else {
                    None
                }
            })
            .collect()
    };
    let (pl, pa, po, pao) = (minus(pl), minus(pa), minus(po), minus(pao));
    if let Some(((g, f, row), n)) = pao.iter().next() {
        return Err((
            "old-matches-reenumerated".into(),
            format!("with every tuple old, one iteration still enumerates matches: {n} x {g}: {f}{row:?}"),
        ));
    }
    // conservation: matches(old+new) = matches(old only) + matches containing a new tuple
    let mut sum = po.clone();
    for (k, n) in &pl {
        *sum.entry(k.clone()).or_insert(0) += n;
    }
    // the symmetric single-valuedness rule is compared as a set of unordered pairs
    let norm = |m: &BTreeMap<(String, String, Vec<u32>), u32>| -> BTreeMap<(String, String, Vec<u32>), u32> {
        m.iter().map(|(k, n)| (k.clone(), if k.0.starts_with("functionality_") { 1 } else { *n })).collect()
    };
    let (sum, pa) = (norm(&sum), norm(&pa));
    if sum != pa {
        let mut diffs = Vec::new();
        for (k, n) in &pa {
            let s = sum.get(k).copied().unwrap_or(0);
            if s != *n {
                diffs.push(format!(
                    "{}: {}{:?}: all-new enumerates {n}, old-only {} + labelled {}",
                    k.0,
                    k.1,
                    k.2,
                    po.get(k).copied().unwrap_or(0),
                    pl.get(k).copied().unwrap_or(0)
                ));
            }
        }
        for (k, s) in &sum {
            if !pa.contains_key(k) {
                diffs.push(format!("{}: {}{:?}: all-new enumerates 0, old-only + labelled {s}", k.0, k.1, k.2));
            }
        }
        let missing = pa.iter().any(|(k, n)| sum.get(k).copied().unwrap_or(0) < *n);
        return Err((
            if missing { "match-with-new-tuple-missed".into() } else { "match-enumerated-twice".into() },
            format!("conservation law violated: {}", diffs.join("; ")),
        ));
    }
    info.checks = pa.values().map(|n| *n as u64).sum();
    info.polls = pl.values().map(|n| *n as u64).sum();
    let mut h = Fnv::new();
    for ((g, f, r), n) in &pl {
        h.str(g);
        h.str(f);
        for x in r {
            h.u32(*x);
        }
        h.u32(*n);
    }
    info.final_fingerprint = h.finish();
    Ok(info)
}

// ---------------------------------------------------------------------------------------------
// minimisation and worker

pub fn minimise_case(progs: &[Prog], case: &Json, class: &str) -> Json {
    let same = |c: &Json| matches!(crate::run_case(progs, c), Ok(Err((cl, _))) if cl == class);
    let mut budget = 300usize;
    match case.get("kind").and_then(|k| k.as_str()) {
        Some("c16") => {
            let mut best = case.clone();
            for key in ["new_ops", "old_ops"] {
                if let Some(ops) = best.get(key).and_then(ops_from_json) {
                    let base = best.clone();
                    let kept = ddmin(ops, &mut budget, &mut |cand| {
                        let mut c = base.clone();
                        c.set(key, ops_to_json(cand));
                        same(&c)
                    });
                    best.set(key, ops_to_json(&kept));
                }
            }
            // refresh the readable form
            if let Some(name) = best.get("program").and_then(|p| p.as_str()) {
                if let Some(prog) = progs.iter().find(|p| p.name == name) {
                    for (k, rk) in [("old_ops", "old_readable"), ("new_ops", "new_readable")] {
                        if let Some(ops) = best.get(k).and_then(ops_from_json) {
                            best.set(rk, Json::arr_str(&ops.iter().map(|o| o.show(&prog.program)).collect::<Vec<_>>()));
                        }
                    }
                }
            }
            best
        }
        Some("c03") => {
            // shrink each schedule (facts stay: indices must remain valid), then drop schedules
            let mut best = case.clone();
            let scheds: Vec<Vec<i64>> = best
                .get("schedules")
                .and_then(|f| f.as_arr())
                .map(|a| a.iter().map(|s| s.as_arr().map(|x| x.iter().filter_map(|v| v.as_i64()).collect()).unwrap_or_default()).collect())
                .unwrap_or_default();
            let to_json = |s: &Vec<Vec<i64>>| Json::Arr(s.iter().map(|x| Json::Arr(x.iter().map(|v| Json::Int(*v)).collect())).collect());
            let mut cur = scheds.clone();
            // keep schedule 0 and one other if that suffices
            if cur.len() > 2 {
                for i in 1..cur.len() {
                    let cand = vec![cur[0].clone(), cur[i].clone()];
                    let mut c = best.clone();
                    c.set("schedules", to_json(&cand));
                    if same(&c) {
                        cur = cand;
                        break;
                    }
                }
            }
            // drop the same fact from all schedules
            let n_facts = best.get("facts").and_then(|f| f.as_arr()).map(|a| a.len()).unwrap_or(0);
            for f in (0..n_facts).rev() {
                if budget == 0 {
                    break;
                }
                budget -= 1;
                let cand: Vec<Vec<i64>> = cur.iter().map(|s| s.iter().copied().filter(|x| *x != f as i64).collect()).collect();
                let mut c = best.clone();
                c.set("schedules", to_json(&cand));
                if same(&c) {
                    cur = cand;
                }
            }
            // drop closes / duplicates in the non-base schedules
            for si in 1..cur.len() {
                let base_scheds = cur.clone();
                let base_case = best.clone();
                let kept = ddmin(cur[si].clone(), &mut budget, &mut |cand| {
                    // every fact of the base schedule must still be asserted at least once
                    if !base_scheds[0].iter().all(|x| cand.contains(x)) {
                        return false;
                    }
                    let mut ss = base_scheds.clone();
                    ss[si] = cand.to_vec();
                    let mut c = base_case.clone();
                    c.set("schedules", to_json(&ss));
                    same(&c)
                });
                cur[si] = kept;
            }
            best.set("schedules", to_json(&cur));
            best
        }
        _ => case.clone(),
    }
}

fn report(stats: &mut ShardStats, progs: &[Prog], prop: &str, case: Json, class: String, seed: u64, idx: u64) -> bool {
    if stats.has_class(prop, &class) {
        return false;
    }
    let min_case = if case.get("kind").and_then(|k| k.as_str()) == Some("history") { crate::minimise(progs, &case, &class) } else { minimise_case(progs, &case, &class) };
    match crate::run_case(progs, &min_case) {
        Ok(outcome @ Err(_)) => {
            let log_hash = crate::outcome_hash(&min_case, &outcome);
            let (class2, message) = outcome.err().unwrap();
            stats.violation(Violation {
                property: prop.to_string(),
                class: class2,
                message,
                seed,
                run_index: idx,
                case: min_case,
                log_hash,
            })
        }
        Ok(Ok(_)) => {
            stats.diagnostics.push("minimised case lost its violation".into());
            false
        }
        Err(e) => {
            stats.diagnostics.push(e);
            false
        }
    }
}

pub fn worker(args: &WorkerArgs, progs: &[Prog], stats: &mut ShardStats) {
    let thorough = args.tier == "thorough";
    let prop = args.prop.as_str();
    let per_prog: u64 = args.get_u64("runs", if thorough { 3000 } else { 400 });
    let wants_model = matches!(prop, "C17" | "C18");
    let eligible: Vec<&Prog> = progs.iter().filter(|p| p.model.is_some() == wants_model).collect();
    stats.count("programs", eligible.len() as u64);
    if matches!(prop, "C02" | "C03" | "C07") {
        stats.declare_probe("inconclusive_runs");
    }
    if wants_model {
        // the known findings of C17 come in many classes (base class x structure timing x index
        // feature); they must not exhaust the cap and end a shard before it met anything else
        stats.violation_cap = 64;
        stats.declare_fault("late_structure");
        stats.declare_fault("early_structure");
        stats.declare_fault("member_type_history");
        stats.declare_fault("morphism_application_asserted");
        stats.declare_fault("object_equate");
        if prop == "C17" {
            stats.declare_probe("member_type_runs_judged_in_full");
            stats.declare_probe("plain_model_runs_judged_in_full");
            stats.declare_probe("member_rows_derived_or_inherited");
        }
        if prop == "C18" {
            stats.declare_probe("toposort_calls_with_morphisms");
            stats.declare_probe("cycle_reported_by_close_and_real");
            stats.declare_fault("cycle_injected");
        }
    }
    if eligible.is_empty() {
        stats.diagnostics.push("the corpus holds no program this property applies to".into());
        return;
    }
    let total = eligible.len() as u64 * per_prog;
    let mut idx = args.shard;
    while idx < total {
        let prog = eligible[(idx % eligible.len() as u64) as usize];
        let seed = derive_seed(args.seed, 200 + prop.trim_start_matches('C').parse::<u64>().unwrap_or(0), idx);
        let mut rng = Rng::new(seed);
        let cases: Vec<Json> = match prop {
            "C02" => {
                let mut knobs = HistKnobs::draw(&mut rng);
                knobs.w_cancel = 0;
                knobs.len = knobs.len.min(24);
                let ops = gen_history(prog, &mut rng, &knobs, false);
                vec![crate::history_case("C02", prog, &ops, seed)]
            }
            "C03" => {
                let facts = gen_facts(prog, &mut rng);
                let mut scheds = vec![gen_schedule(&facts, &mut rng, true)];
                for _ in 0..rng.range(1, 3) {
                    scheds.push(gen_schedule(&facts, &mut rng, false));
                }
                for s in scheds.iter().skip(1) {
                    stats.fault("reordered_schedule");
                    stats.fault_n("intermediate_close", s.iter().filter(|x| **x < 0).count() as u64);
                    let mut seen = std::collections::BTreeSet::new();
                    stats.fault_n("duplicate_assertion", s.iter().filter(|x| **x >= 0 && !seen.insert(**x)).count() as u64);
                }
                vec![c03_case(prog, &facts, &scheds)]
            }
            "C07" => {
                let mut knobs = HistKnobs::draw(&mut rng);
                knobs.w_cancel = 0;
                knobs.w_close = if rng.chance(1, 3) { 1 } else { 0 };
                knobs.len = knobs.len.min(20);
                let mut ops = gen_history(prog, &mut rng, &knobs, false);
                // the cancelled close, then (sometimes) further assertions
                ops.push(Op::CloseUntil { stop_at: 0 });
                if rng.chance(1, 2) {
                    let mut k2 = knobs.clone();
                    k2.len = rng.range(1, 6) as usize;
                    k2.w_close = 0;
                    let more = gen_history(prog, &mut rng, &k2, false);
                    ops.extend(more.into_iter().filter(|o| !matches!(o, Op::NewEl { .. }) || rng.chance(1, 3)));
                }
                // enumerate every poll index of the direct close (fault enumeration)
                let mut v = Vec::new();
                for k in 0..12u32 {
                    let mut c = crate::history_case("C07", prog, &ops, seed);
                    c.set("k", Json::Int(k as i64));
                    // every other cancellation point is followed by a second, immediately true, close_until
                    c.set("again", Json::Bool((k as u64 + seed) % 2 == 1));
                    v.push(c);
                }
                v
            }
            "C16" => {
                let mut knobs = HistKnobs::draw(&mut rng);
                knobs.w_cancel = 0;
                knobs.w_close = 0;
                knobs.w_equate = 0;
                knobs.len = rng.range(2, 14) as usize;
                let old_ops = gen_history(prog, &mut rng, &knobs, false);
                knobs.len = rng.range(1, 10) as usize;
                let new_ops: Vec<Op> = gen_history(prog, &mut rng, &knobs, false);
                stats.fault("new_old_labelling");
                vec![c16_case(prog, &old_ops, &new_ops)]
            }
            "C17" | "C18" => {
                let mut ops = crate::c17::gen_history(prog, &mut rng);
                if prop == "C18" && rng.chance(1, 4) && crate::c17::inject_cycle(prog, &mut ops, &mut rng) {
                    stats.fault("cycle_injected");
                }
                if crate::c17::late_structure(prog, &ops) {
                    stats.fault("late_structure");
                } else {
                    stats.fault("early_structure");
                }
                if let Some(mi) = &prog.model {
                    if !mi.member_sorts.is_empty() {
                        stats.fault("member_type_history");
                        let apps: Vec<usize> = mi.member_sorts.iter().map(|(_, _, a)| *a).collect();
                        stats.fault_n("morphism_application_asserted", ops.iter().filter(|o| matches!(o, Op::Insert { rel, .. } if apps.contains(rel))).count() as u64);
                        stats.fault_n("member_element_equate", ops.iter().filter(|o| matches!(o, Op::Equate { sort, .. } if mi.member_sorts.iter().any(|(s, _, _)| s == sort))).count() as u64);
                    }
                    stats.fault_n("object_equate", ops.iter().filter(|o| matches!(o, Op::Equate { sort, .. } if *sort == mi.model_sort)).count() as u64);
                }
                vec![crate::c17::case(prop, prog, &ops)]
            }
            other => {
                stats.diagnostics.push(format!("modelsim does not serve {other} yet"));
                return;
            }
        };
        for (ci, case) in cases.into_iter().enumerate() {
            // every case (for C07: every cancellation point k) is one evaluation
            stats.run_seed(seed.wrapping_add(ci as u64));
            match crate::run_case(progs, &case) {
                Ok(Ok(info)) => {
                    stats.steps += info.steps + info.polls;
                    if info.budget_hit {
                        stats.probe("inconclusive_runs");
                        if prop == "C07" {
                            // k beyond the number of polls: no further k will be conclusive either
                            break;
                        }
                        continue;
                    }
                    stats.probe_n("closes_completed", info.closes_completed);
                    stats.probe_n("closes_cancelled", info.closes_cancelled);
                    stats.probe_n("polls", info.polls);
                    stats.probe_n("new_elements_by_close", info.new_elements_by_close);
                    stats.fault_n("cancel_at_poll", info.closes_cancelled);
                    stats.fault_n("equate_between_closes", info.merges_between_closes);
                    stats.count("checks", info.checks);
                    if wants_model {
                        stats.probe_n("toposort_calls_with_morphisms", info.enum_elements_checked);
                    }
                    if prop == "C18" {
                        stats.probe_n("cycle_reported_by_close_and_real", info.c17_mapped_rows);
                    }
                    if prop == "C17" {
                        let member = prog.model.as_ref().map(|mi| !mi.member_sorts.is_empty()).unwrap_or(false);
                        if info.c17_masked {
                            stats.probe(if member { "member_type_runs_overlapping_a_known_finding" } else { "plain_model_runs_overlapping_a_known_finding" });
                        } else {
                            stats.probe(if member { "member_type_runs_judged_in_full" } else { "plain_model_runs_judged_in_full" });
                        }
                        if member {
                            stats.probe_n("member_rows_derived_or_inherited", info.c17_mapped_rows);
                        }
                    }
                    let nontrivial = match prop {
                        "C02" => info.max_polls_in_close >= 3,
                        "C03" => info.checks >= 1 && info.polls >= 4,
                        "C07" => info.max_polls_in_close >= 3,
                        "C16" => info.polls >= 1,
                        "C17" => info.checks >= 3,
                        "C18" => info.checks >= 1,
                        _ => true,
                    };
                    if nontrivial {
                        stats.nontrivial(info.final_fingerprint ^ simcore::fnv_str(&prog.name));
                        if stats.want_sample() {
                            let mut c = case.clone();
                            c.set("source", Json::str(&prog.source));
                            stats.sample(c);
                        }
                    }
                }
                Ok(Err((class, _))) => {
                    let stop = report(stats, progs, prop, case, class, seed, idx);
                    let _ = stats.write(args, "modelsim");
                    if stop {
                        return;
                    }
                    if prop == "C07" {
                        break;
                    }
                }
                Err(e) => {
                    stats.diagnostics.push(e);
                    if stats.diagnostics.len() > 5 {
                        return;
                    }
                }
            }
        }
        idx += args.nshards;
    }
}
