//! modelsim: generated models under simulated API histories. The batch binary links this crate
//! with the generated modules + drivers of one corpus and calls `main_with`.

pub mod c17;
pub mod core;
pub mod hist_props;
pub mod monitors;
pub mod multi_props;
pub mod padalloc;

#[global_allocator]
static GLOBAL: padalloc::PadAlloc = padalloc::PadAlloc;

use crate::core::*;
use simcore::cli::{parse_args, Cmd, ShardStats, WorkerArgs};
use simcore::minimize::ddmin;
use simcore::rng::derive_seed;
use simcore::{Fnv, Json, Rng, Violation};
use std::panic::{catch_unwind, AssertUnwindSafe};

const ENGINE: &str = "modelsim";

pub type Fail = (String, String);

/// Where a worker notes which program it is running: if the process dies inside a run (a close
/// that runs away between two polls on a changed tree ends as an allocation failure), the driver
/// reads the name and starts the shard again without that program.
static MARKER: std::sync::Mutex<Option<std::fs::File>> = std::sync::Mutex::new(None);

fn mark_current_program(name: &str) {
    use std::io::{Seek, SeekFrom, Write};
    if let Ok(mut g) = MARKER.lock() {
        if let Some(f) = g.as_mut() {
            let _ = f.seek(SeekFrom::Start(0));
            let _ = f.write_all(format!("{name:<40}\n").as_bytes());
        }
    }
}

/// Executes one explicit case. Ok(Ok(info)) held, Ok(Err(fail)) violated, Err = harness error.
pub fn run_case(progs: &[Prog], case: &Json) -> Result<Result<hist_props::RunInfo, Fail>, String> {
    let prop = case.get("prop").and_then(|p| p.as_str()).ok_or("case lacks prop")?.to_string();
    let name = case.get("program").and_then(|p| p.as_str()).ok_or("case lacks program")?;
    mark_current_program(name);
    let prog = progs.iter().find(|p| p.name == name).ok_or(format!("program {name} is not part of this corpus"))?;
    if let Some(src) = case.get("source").and_then(|s| s.as_str()) {
        if src != prog.source {
            return Err(format!("program {name} of this corpus differs from the source recorded in the case"));
        }
    }
    let r = catch_unwind(AssertUnwindSafe(|| -> Result<Result<hist_props::RunInfo, Fail>, String> {
        match case.get("kind").and_then(|k| k.as_str()).unwrap_or("") {
            "history" => {
                let ops = ops_from_json(case.get("ops").ok_or("case lacks ops")?).ok_or("bad ops")?;
                let seed = case.get("monitor_seed").and_then(|s| s.as_u64()).unwrap_or(0);
                Ok(match prop.as_str() {
                    "C01" => hist_props::run_monitored(prog, &ops, seed, true, false, false),
                    "C04" => hist_props::run_monitored(prog, &ops, seed, false, true, false),
                    "C15" => hist_props::run_monitored(prog, &ops, seed, false, false, true),
                    "C05" => hist_props::run_c05(prog, &ops),
                    "C06" => hist_props::run_c06(prog, &ops),
                    "C20" => hist_props::run_c20(prog, &ops),
                    "C02" => multi_props::run_c02(prog, &ops),
                    "C07" => multi_props::run_c07(
                        prog,
                        &ops,
                        case.get("k").and_then(|k| k.as_u64()).map(|k| k as u32),
                        case.get("again").and_then(|b| b.as_bool()).unwrap_or(false),
                    ),
                    "C17" | "C18" if prog.model.is_none() => return Err(format!("{name} has no model declaration")),
                    "C17" => c17::run_c17(prog, &ops, false),
                    "C18" => c17::run_c17(prog, &ops, true),
                    other => return Err(format!("no history check for {other}")),
                })
            }
            "c03" => Ok(multi_props::run_c03_case(prog, case)?),
            "c16" => Ok(multi_props::run_c16_case(prog, case)?),
            other => Err(format!("unknown case kind {other:?}")),
        }
    }));
    match r {
        Ok(x) => {
            // "harness" failures are errors of the machinery, never violations
            if let Ok(Err((c, m))) = &x {
                if c == "harness" {
                    return Err(m.clone());
                }
            }
            x
        }
        Err(p) => Ok(Err(("panic".to_string(), format!("the generated model panicked: {}", panic_message(&p))))),
    }
}

pub(crate) fn outcome_hash(case: &Json, outcome: &Result<hist_props::RunInfo, Fail>) -> u64 {
    let mut h = Fnv::new();
    h.str(&case.to_string());
    match outcome {
        Ok(info) => {
            h.str("held");
            h.u64(info.final_fingerprint);
        }
        Err((c, m)) => {
            h.str(c);
            h.str(m);
        }
    }
    h.finish()
}

pub fn history_case(prop: &str, prog: &Prog, ops: &[Op], monitor_seed: u64) -> Json {
    Json::obj(vec![
        ("kind", Json::str("history")),
        ("prop", Json::str(prop)),
        ("program", Json::str(&prog.name)),
        ("source", Json::str(&prog.source)),
        ("monitor_seed", Json::Int((monitor_seed & 0x7fff_ffff) as i64)),
        ("ops", ops_to_json(ops)),
        ("ops_readable", Json::arr_str(&ops.iter().map(|o| o.show(&prog.program)).collect::<Vec<_>>())),
    ])
}

fn same_class(progs: &[Prog], case: &Json, class: &str) -> bool {
    matches!(run_case(progs, case), Ok(Err((c, _))) if c == class)
}

fn set_ops(case: &Json, prog: &Prog, ops: &[Op]) -> Json {
    let mut c = case.clone();
    c.set("ops", ops_to_json(ops));
    c.set("ops_readable", Json::arr_str(&ops.iter().map(|o| o.show(&prog.program)).collect::<Vec<_>>()));
    c
}

pub(crate) fn minimise(progs: &[Prog], case: &Json, class: &str) -> Json {
    if case.get("kind").and_then(|k| k.as_str()) != Some("history") {
        return multi_props::minimise_case(progs, case, class);
    }
    let name = case.get("program").and_then(|p| p.as_str()).unwrap_or("");
    let prog = match progs.iter().find(|p| p.name == name) {
        Some(p) => p,
        None => return case.clone(),
    };
    let ops = match case.get("ops").and_then(ops_from_json) {
        Some(o) => o,
        None => return case.clone(),
    };
    let mut budget = 400usize;
    let ops = ddmin(ops, &mut budget, &mut |cand| same_class(progs, &set_ops(case, prog, cand), class));
    // simplify: close_until -> close, references towards 0
    let simpler = |op: &Op| -> Vec<Op> {
        let mut v = Vec::new();
        match op {
            Op::CloseUntil { .. } => v.push(Op::Close),
            Op::Insert { rel, args } => {
                for i in 0..args.len() {
                    if args[i] > 0 {
                        let mut a = args.clone();
                        a[i] = 0;
                        v.push(Op::Insert { rel: *rel, args: a });
                    }
                }
            }
            Op::Equate { sort, a, b } => {
                if *a > 1 {
                    v.push(Op::Equate { sort: *sort, a: 0, b: *b });
                }
                if *b > 1 {
                    v.push(Op::Equate { sort: *sort, a: *a, b: 1 });
                }
            }
            _ => {}
        }
        v
    };
    let ops = simcore::minimize::simplify_items(ops, &mut budget, &simpler, &mut |cand| same_class(progs, &set_ops(case, prog, cand), class));
    set_ops(case, prog, &ops)
}

fn report(stats: &mut ShardStats, progs: &[Prog], prop: &str, case: Json, class: String, seed: u64, idx: u64) -> bool {
    if stats.has_class(prop, &class) {
        return false;
    }
    let min_case = minimise(progs, &case, &class);
    match run_case(progs, &min_case) {
        Ok(outcome @ Err(_)) => {
            let log_hash = outcome_hash(&min_case, &outcome);
            let (class2, message) = outcome.err().unwrap();
            stats.violation(Violation {
                property: prop.to_string(),
                class: class2,
                message,
                seed,
                run_index: idx,
                case: min_case,
                log_hash,
            })
        }
        Ok(Ok(_)) => {
            stats.diagnostics.push("minimised case lost its violation".into());
            false
        }
        Err(e) => {
            stats.diagnostics.push(e);
            false
        }
    }
}

fn stream_of(prop: &str) -> u64 {
    prop.trim_start_matches('C').parse::<u64>().unwrap_or(0) + 100
}

fn worker(args: &WorkerArgs, progs: &[Prog]) -> ShardStats {
    let mut stats = ShardStats::new();
    let thorough = args.tier == "thorough";
    let prop = args.prop.as_str();
    let fault_kinds: &[&str] = match prop {
        "C07" => &["cancel_at_poll"],
        "C02" => &["equate_between_closes"],
        "C03" | "C16" | "C19" | "C17" | "C18" => &[],
        _ => &["cancel_at_poll", "duplicate_assertion", "equate_between_closes", "alias_nonroot_argument", "late_assertion_after_close"],
    };
    for f in fault_kinds {
        stats.declare_fault(f);
    }
    // rare-branch probes that this property's workload is expected to reach
    let expected: &[&str] = match prop {
        "C06" => &["closes_completed", "closes_cancelled", "polls"],
        "C16" => &["polls"],
        "C19" => &[],
        "C02" | "C03" => &["closes_completed", "new_elements_by_close", "polls"],
        "C17" | "C18" | "C07" => &["closes_completed", "closes_cancelled", "polls"],
        _ => &["closes_completed", "closes_cancelled", "budget_hit_runs", "new_elements_by_close", "polls"],
    };
    for p in expected {
        stats.declare_probe(p);
    }
    if matches!(prop, "C02" | "C03" | "C07" | "C16" | "C17" | "C18") {
        multi_props::worker(args, progs, &mut stats);
        return stats;
    }
    let per_prog: u64 = if prop == "C19" { 0 } else { args.get_u64("runs", if thorough { 5000 } else { 600 }) };
    let eligible: Vec<usize> = (0..progs.len())
        // programs with a model declaration take part in C05 (immediate visibility also holds for
        // member relations, whose queries read the `all` copies), in C06 (both families are
        // surjective) and in C20 (transcripts need no reference); the other monitors do not know
        // the own / all split
        .filter(|i| progs[*i].model.is_none() || matches!(prop, "C05" | "C06" | "C19" | "C20"))
        .filter(|i| match prop {
            "C06" => progs[*i].surjective,
            "C15" => progs[*i].program.sorts.iter().any(|s| matches!(s.kind, lang::SortKind::Enum(_))),
            _ => true,
        })
        .collect();
    stats.count("programs", eligible.len() as u64);
    let total = eligible.len() as u64 * per_prog;
    let mut idx = args.shard;
    let mut hashes: Vec<(String, String)> = Vec::new();
    while idx < total {
        let pi = eligible[(idx % eligible.len() as u64) as usize];
        let prog = &progs[pi];
        let seed = derive_seed(args.seed, stream_of(prop), idx);
        let mut rng = Rng::new(seed);
        let knobs = HistKnobs::draw(&mut rng);
        let ops = if prog.model.is_some() {
            // well-formed model histories (objects, morphisms, members, facts, closes in between)
            let mut ops = c17::gen_history(prog, &mut rng);
            if rng.chance(1, 2) {
                // and a tail of further assertions that no close follows
                ops.pop();
            }
            stats.fault("model_program_history");
            ops
        } else {
            gen_history(prog, &mut rng, &knobs, matches!(prop, "C01" | "C06"))
        };
        stats.run_seed(seed);
        let case = history_case(prop, prog, &ops, seed);
        match run_case(progs, &case) {
            Ok(Ok(info)) => {
                stats.steps += info.steps + info.polls;
                stats.probe_n("closes_completed", info.closes_completed);
                stats.probe_n("closes_cancelled", info.closes_cancelled);
                stats.probe_n("polls", info.polls);
                stats.probe_n("new_elements_by_close", info.new_elements_by_close);
                stats.fault_n("cancel_at_poll", info.closes_cancelled);
                stats.fault_n("equate_between_closes", info.merges_between_closes);
                stats.fault_n(
                    "duplicate_assertion",
                    ops.windows(2).filter(|w| w[0] == w[1] && !matches!(w[0], Op::NewEl { .. } | Op::Close)).count() as u64,
                );
                let mut seen_close = false;
                let mut late = 0;
                for o in &ops {
                    match o {
                        Op::Close | Op::CloseUntil { .. } => seen_close = true,
                        Op::Insert { .. } | Op::Equate { .. } | Op::Define { .. } if seen_close => late += 1,
                        _ => {}
                    }
                }
                stats.fault_n("late_assertion_after_close", late);
                stats.fault_n("alias_nonroot_argument", info.merges_between_closes.min(1) * late.min(1));
                if info.budget_hit {
                    stats.probe("budget_hit_runs");
                }
                stats.count("checks", info.checks);
                stats.count("c04_max_index_copies_per_relation", 0);
                if info.c04_max_copies as u64 > *stats.counters.get("c04_max_index_copies_seen").unwrap_or(&0) {
                    stats.counters.insert("c04_max_index_copies_seen".into(), info.c04_max_copies as u64);
                }
                stats.count("c04_runs_with_diagonal_copies", (info.c04_diagonal_copies > 0) as u64);
                stats.count("define_hit_existing", info.define_hit_existing);
                stats.count("enum_elements_checked", info.enum_elements_checked);
                let nontrivial = match prop {
                    "C01" => info.closes_completed >= 1 && info.max_polls_in_close >= 3,
                    "C06" => info.closes_completed >= 1 && info.max_polls_in_close >= 2,
                    "C04" => info.checks >= 2 && info.polls >= 3,
                    "C15" => info.enum_elements_checked >= 1,
                    _ => info.closes_completed + info.closes_cancelled >= 1,
                };
                if nontrivial {
                    stats.nontrivial(info.final_fingerprint ^ simcore::fnv_str(&prog.name));
                    if stats.want_sample() && ops.len() <= 16 {
                        stats.sample(Json::obj(vec![
                            ("program", Json::str(&prog.name)),
                            ("source", Json::str(&prog.source)),
                            ("ops", Json::arr_str(&ops.iter().map(|o| o.show(&prog.program)).collect::<Vec<_>>())),
                        ]));
                    }
                }
                if prop == "C20" && idx < eligible.len() as u64 * 4 {
                    // the first histories of every program are run by every shard: see below
                }
            }
            Ok(Err((class, _))) => {
                let stop = report(&mut stats, progs, prop, case, class, seed, idx);
                // findings survive a later death of this worker (e.g. an allocation failure in a
                // run-away close on a changed tree)
                let _ = stats.write(args, ENGINE);
                if stop {
                    break;
                }
            }
            Err(e) => {
                stats.diagnostics.push(e);
                if stats.diagnostics.len() > 5 {
                    break;
                }
            }
        }
        idx += args.nshards;
    }
    if prop == "C20" || prop == "C19" {
        // cross-process half (C20) / cross-build half (C19): the same histories are run by every
        // shard of every binary; the top level compares the transcript hashes
        let common = args.get_u64("common", if prop == "C19" { if thorough { 400 } else { 96 } } else if thorough { 40 } else { 12 });
        for pi in &eligible {
            let prog = &progs[*pi];
            for j in 0..common {
                if prop == "C19" {
                    // C19 shards split the histories (there is no cross-process question here)
                    if j % args.nshards != args.shard {
                        continue;
                    }
                    stats.run_seed(derive_seed(args.seed, 2020, simcore::fnv_str(&prog.name).wrapping_add(j)));
                }
                // keyed by the program's name, so that every binary that contains the program runs
                // the same histories whatever its position in the corpus
                let seed = derive_seed(args.seed, 2020, simcore::fnv_str(&prog.name).wrapping_add(j));
                let mut rng = Rng::new(seed);
                let knobs = HistKnobs::draw(&mut rng);
                let ops = if prog.model.is_some() { c17::gen_history(prog, &mut rng) } else { gen_history(prog, &mut rng, &knobs, true) };
                mark_current_program(&prog.name);
                let r = catch_unwind(AssertUnwindSafe(|| hist_props::transcript(prog, &ops)));
                let h = match r {
                    Ok((h, info)) => {
                        if prop == "C19" {
                            stats.steps += info.steps + info.polls;
                            if info.closes_completed + info.closes_cancelled >= 1 {
                                stats.nontrivial(h);
                                if stats.want_sample() && ops.len() <= 14 {
                                    stats.sample(Json::obj(vec![
                                        ("program", Json::str(&prog.name)),
                                        ("ops", Json::arr_str(&ops.iter().map(|o| o.show(&prog.program)).collect::<Vec<_>>())),
                                        ("transcript_hash", Json::str(&format!("{h:016x}"))),
                                    ]));
                                }
                            }
                        }
                        format!("{h:016x}")
                    }
                    Err(p) => format!("panic:{}", panic_message(&p)),
                };
                hashes.push((format!("{}#{j}", prog.name), h));
            }
        }
        let j = Json::Obj(hashes.into_iter().map(|(k, v)| (k, Json::Str(v))).collect());
        let _ = std::fs::create_dir_all(&args.out);
        let _ = std::fs::write(format!("{}/shard-{}.hashes.json", args.out, args.shard), j.to_string());
    }
    stats
}

pub fn main_with(entries: Vec<mdrv::Entry>) {
    std::panic::set_hook(Box::new(|info| {
        if std::env::var("VERIF_BACKTRACE").is_ok() {
            eprintln!("panic: {info}\n{}", std::backtrace::Backtrace::force_capture());
        }
    }));
    if let Some(n) = std::env::var("VERIF_ALLOC_PAD").ok().and_then(|s| s.parse::<usize>().ok()) {
        padalloc::set_pad(n);
    }
    let progs = match load_progs(&entries) {
        Ok(p) => p,
        Err(e) => {
            eprintln!("harness error: {e}");
            std::process::exit(2);
        }
    };
    match parse_args() {
        Ok(Cmd::Run(args)) => {
            // degraded mode after a worker death: the driver names the programs to leave out
            let skip: Vec<String> = args.get_str("skip-programs", "").split(',').filter(|s| !s.is_empty()).map(|s| s.to_string()).collect();
            let progs: Vec<Prog> = progs.into_iter().filter(|p| !skip.contains(&p.name)).collect();
            let _ = std::fs::create_dir_all(&args.out);
            if let Ok(f) = std::fs::File::create(format!("{}/shard-{}.current", args.out, args.shard)) {
                *MARKER.lock().unwrap() = Some(f);
            }
            let stats = worker(&args, &progs);
            if let Err(e) = stats.write(&args, ENGINE) {
                eprintln!("cannot write results: {e}");
                std::process::exit(2);
            }
            if !stats.diagnostics.is_empty() {
                for d in &stats.diagnostics {
                    eprintln!("diagnostic: {d}");
                }
                std::process::exit(2);
            }
        }
        Ok(Cmd::Replay { file, .. }) => {
            let j = match std::fs::read_to_string(&file).map_err(|e| e.to_string()).and_then(|t| Json::parse(&t)) {
                Ok(j) => j,
                Err(e) => {
                    eprintln!("cannot read {file}: {e}");
                    std::process::exit(2);
                }
            };
            let case = j.get("case").cloned().unwrap_or(Json::Null);
            match run_case(&progs, &case) {
                Ok(outcome) => {
                    let h = outcome_hash(&case, &outcome);
                    match outcome {
                        Err((class, message)) => {
                            println!(
                                "{}",
                                Json::obj(vec![
                                    ("replayed", Json::Bool(true)),
                                    ("class", Json::str(&class)),
                                    ("message", Json::str(&message)),
                                    ("log_hash", Json::str(&format!("{h:016x}"))),
                                ])
                                .to_string()
                            );
                            std::process::exit(1);
                        }
                        Ok(_) => {
                            println!(
                                "{}",
                                Json::obj(vec![("replayed", Json::Bool(false)), ("log_hash", Json::str(&format!("{h:016x}")))]).to_string()
                            );
                            std::process::exit(0);
                        }
                    }
                }
                Err(e) => {
                    eprintln!("harness error: {e}");
                    std::process::exit(2);
                }
            }
        }
        Err(e) => {
            eprintln!("{e}");
            std::process::exit(2);
        }
    }
}
