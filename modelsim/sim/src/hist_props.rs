//! Properties decided on a single seeded API history: C01, C04, C05, C06, C15, C20.

use crate::core::*;
use crate::monitors::*;
use lang::ast::*;
use lang::structure::Structure;
use mdrv::DynModel;
use simcore::{Fnv, Rng};
use std::cell::RefCell;
use std::collections::BTreeSet;

#[derive(Default, Debug, Clone)]
pub struct RunInfo {
    pub steps: u64,
    pub polls: u64,
    pub closes_completed: u64,
    pub closes_cancelled: u64,
    pub budget_hit: bool,
    pub max_polls_in_close: u32,
    pub final_fingerprint: u64,
    pub transcript_hash: u64,
    pub checks: u64,
    pub merges_between_closes: u64,
    pub new_elements_by_close: u64,
    pub c04_max_copies: usize,
    pub c04_diagonal_copies: usize,
    pub define_hit_existing: u64,
    pub enum_elements_checked: u64,
    pub nonroot_args: u64,
    /// C17: the run met a condition one of the known findings covers (late structure, a derived
    /// structural merge, or deviating index copies); a run without it is judged in full
    pub c17_masked: bool,
    /// C17: inherited tuples whose member-typed components were replaced by images (rows of the
    /// codomain that differ from every row of the domain in a member-typed column)
    pub c17_mapped_rows: u64,
}

fn all_pairs_equal_check(prog: &Prog, m: &dyn DynModel, cur: &Structure) -> Result<(), Fail> {
    let p = &prog.program;
    for s in 0..p.sorts.len() {
        let n = m.n_ids(s);
        if n != cur.parent[s].len() {
            return Err((
                "id-counter".into(),
                format!("sort {} has {} ids but the caller was handed {}", p.sorts[s].name, n, cur.parent[s].len()),
            ));
        }
        for a in 0..n as u32 {
            let ra = m.root(s, a);
            if m.root(s, ra) != ra {
                return Err(("root".into(), format!("root_{}(root({a})) != root({a})", p.sort_snake(s))));
            }
            if !cur.are_equal(s, a, ra) {
                return Err(("root".into(), format!("root_{}({a}) = {ra} lies outside the class of {a}", p.sort_snake(s))));
            }
            for b in 0..n as u32 {
                let got = m.are_equal(s, a, b);
                let want = cur.are_equal(s, a, b);
                if got != want {
                    return Err((
                        "are-equal".into(),
                        format!("are_equal_{}({a}, {b}) = {got} but the equalities asserted so far say {want}", p.sort_snake(s)),
                    ));
                }
            }
        }
    }
    Ok(())
}

/// C05: operation-by-operation oracle against reference tables and a reference union-find.
pub fn run_c05(prog: &Prog, ops: &[Op]) -> Result<RunInfo, Fail> {
    let p = &prog.program;
    let mut m = (prog.new)();
    let mut info = RunInfo::default();
    let mut cur = Structure::new(p);
    let mut equated = false;
    // programs with a member type: once the redundant `all` copies of a member relation disagree
    // (known findings KF-C17-2 / KF-C17-3) the presence test of insert_ and the iterators read
    // different copies; violations met from then on carry the kind of the deviating copy
    let deviation: std::cell::Cell<Option<&'static str>> = std::cell::Cell::new(None);
    let member_prog = prog.model.as_ref().map(|mi| !mi.member_sorts.is_empty()).unwrap_or(false);
    for (i, op) in ops.iter().enumerate() {
        info.steps += 1;
        let ctx = |class: &str, msg: String| -> Fail {
            let class = match deviation.get() {
                Some(k) if k != "other" && class != "harness" => format!("{class}/{k}"),
                _ => class.to_string(),
            };
            (class, format!("op {i} {}: {msg}", op.show(p)))
        };
        if member_prog && deviation.get().is_none() {
            deviation.set(crate::c17::inherited_copies_deviation(prog, m.as_ref()));
        }
        let n_before: Vec<usize> = (0..p.sorts.len()).map(|s| m.n_ids(s)).collect();
        let (res, args) = apply_op(prog, m.as_mut(), op, &|_, _| {});
        match (op, &res) {
            (_, OpResult::Skipped) => {}
            (Op::NewEl { sort }, OpResult::Id(id)) => {
                if *id as usize != n_before[*sort] {
                    return Err(ctx("new-not-fresh", format!("returned {id} but {} ids existed", n_before[*sort])));
                }
                cur.new_el(*sort);
            }
            (Op::NewMember { sort, .. }, OpResult::Id(id)) => {
                if *id as usize != n_before[*sort] {
                    return Err(ctx("new-not-fresh", format!("returned {id} but {} ids existed", n_before[*sort])));
                }
                cur.new_el(*sort);
                if let SortKind::Member { membership_rel, model_sort } = &p.sorts[*sort].kind {
                    // new_<t>(parent) makes the element a member of parent, visibly at once
                    let t = vec![cur.root(*model_sort, args[0]), *id];
                    cur.tables[*membership_rel].insert(t.clone());
                    if !equated && !m.holds(*membership_rel, &[args[0], *id]) {
                        return Err(ctx("insert-not-visible", "the new element is not reported as a member of its parent".into()));
                    }
                }
            }
            (Op::Insert { rel, .. }, OpResult::Unit) => {
                let canon = cur.canon_tuple(*rel, &args);
                cur.tables[*rel].insert(canon.clone());
                if !equated {
                    let r = &p.rels[*rel];
                    if r.is_func() {
                        let n = canon.len();
                        let allowed: BTreeSet<u32> = cur.tables[*rel].iter().filter(|t| t[..n - 1] == canon[..n - 1]).map(|t| t[n - 1]).collect();
                        match m.eval(*rel, &args[..n - 1]) {
                            Some(v) if allowed.contains(&m.root(r.result.unwrap(), v)) => {}
                            other => {
                                return Err(ctx(
                                    "insert-not-visible",
                                    format!("evaluation gives {other:?}, expected one of the asserted values {allowed:?}"),
                                ))
                            }
                        }
                    } else if !m.holds(*rel, &args) {
                        return Err(ctx("insert-not-visible", "the predicate query does not report the tuple".into()));
                    }
                    if let Some(it) = m.iter_rel(*rel) {
                        let cnt = it.iter().filter(|t| **t == canon).count();
                        let want: BTreeSet<Vec<u32>> = cur.tables[*rel].iter().cloned().collect();
                        let got: BTreeSet<Vec<u32>> = it.iter().cloned().collect();
                        // member relations: a tuple that is old in one way (asserted, or inherited
                        // from an old tuple) and inherited from a new tuple in another is listed by
                        // the new and by the old `all` copy (they are recomputed separately, the root
                        // of KF-C17-1): the iterator then yields it twice. Its own class, so that a
                        // wrong or missing tuple stays a different violation.
                        let member_rel = prog.model.as_ref().map(|mi| mi.member_rels.contains(rel)).unwrap_or(false);
                        if member_rel && cnt >= 1 && got == want && got.len() != it.len() {
                            return Err(ctx("iter-duplicate/member-relation", format!("the iterator yields a tuple more than once: {it:?}")));
                        }
                        if cnt != 1 {
                            return Err(ctx("insert-not-visible", format!("the iterator reports the tuple {cnt} times: {it:?}")));
                        }
                        if got != want || got.len() != it.len() {
                            return Err(ctx("iter-content", format!("the iterator yields {it:?}, asserted tuples are {want:?}")));
                        }
                    }
                }
            }
            (Op::Define { rel, .. }, OpResult::Id(id)) | (Op::NewEnum { ctor: rel, .. }, OpResult::Id(id)) => {
                let r = &p.rels[*rel];
                let rs = r.result.unwrap();
                let cargs: Vec<u32> = args.iter().enumerate().map(|(i, x)| cur.root(r.args[i], *x)).collect();
                let n = cargs.len();
                let existing: BTreeSet<u32> = cur.tables[*rel].iter().filter(|t| t[..n] == cargs[..]).map(|t| t[n]).collect();
                let fresh = *id as usize == n_before[rs] && m.n_ids(rs) == n_before[rs] + 1;
                if !equated {
                    if existing.is_empty() {
                        if !fresh {
                            return Err(ctx(
                                "define-not-fresh",
                                format!("function undefined on the arguments, so a fresh element ({}) was due, got {id}", n_before[rs]),
                            ));
                        }
                    } else {
                        info.define_hit_existing += 1;
                        if m.n_ids(rs) != n_before[rs] || !existing.contains(&cur.root(rs, *id)) {
                            return Err(ctx(
                                "define-duplicate",
                                format!("function already defined on the arguments with value(s) {existing:?}, got {id} (ids before: {})", n_before[rs]),
                            ));
                        }
                    }
                }
                if fresh {
                    cur.new_el(rs);
                    let mut t = cargs.clone();
                    t.push(*id);
                    cur.tables[*rel].insert(t);
                } else if m.n_ids(rs) != n_before[rs] {
                    return Err(ctx("id-counter", "an id was allocated but not returned".into()));
                }
                if let Op::NewEnum { ctor, .. } = op {
                    // new_<enum>(case) followed by <enum>_cases contains case up to equality
                    let cases = m.enum_cases(rs, *id);
                    let hit = cases.iter().any(|(c, a)| c == ctor && a.len() == args.len() && a.iter().zip(args.iter()).enumerate().all(|(i, (x, y))| m.are_equal(r.args[i], *x, *y)));
                    if !hit && !equated {
                        return Err(ctx("enum-case-missing", format!("cases of the new element are {cases:?}")));
                    }
                }
            }
            (Op::Equate { sort, .. }, OpResult::Unit) => {
                if cur.union_raw(*sort, args[0], args[1]) {
                    info.merges_between_closes += 1;
                }
                equated = true;
            }
            (Op::Close, OpResult::Closed { budget_hit, polls, ret }) | (Op::CloseUntil { .. }, OpResult::Closed { budget_hit, polls, ret }) => {
                info.polls += *polls as u64;
                if *budget_hit {
                    info.budget_hit = true;
                    break;
                }
                if *ret {
                    info.closes_cancelled += 1;
                } else {
                    info.closes_completed += 1;
                }
                // "the equalities of the last closed state": re-seed the reference from the model
                let d = dump(prog, m.as_ref());
                for s in 0..p.sorts.len() {
                    info.new_elements_by_close += (d.n_ids[s] - n_before[s]) as u64;
                }
                cur = d.to_structure(p);
                equated = false;
            }
            _ => return Err(ctx("harness", format!("unexpected result {res:?}"))),
        }
        all_pairs_equal_check(prog, m.as_ref(), &cur).map_err(|(c, msg)| ctx(&c, msg))?;
        info.checks += 1;
    }
    info.final_fingerprint = dump(prog, m.as_ref()).hash();
    Ok(info)
}

/// What the monitor-based properties have in common: run the ops, call `after_close` when a
/// close / close_until returns (with the result) and `at_poll` at every poll.
pub fn run_monitored(
    prog: &Prog,
    ops: &[Op],
    rng_seed: u64,
    want_c01: bool,
    want_c04: bool,
    want_c15: bool,
) -> Result<RunInfo, Fail> {
    let p = &prog.program;
    let mut m = (prog.new)();
    let mut info = RunInfo::default();
    let poll_fail: RefCell<Option<Fail>> = RefCell::new(None);
    let rng = RefCell::new(Rng::new(rng_seed));
    let c04_stats: RefCell<(usize, usize)> = RefCell::new((0, 0));
    let enum_checked: RefCell<u64> = RefCell::new(0);
    let checks: RefCell<u64> = RefCell::new(0);
    for (i, op) in ops.iter().enumerate() {
        info.steps += 1;
        let n_before: usize = (0..p.sorts.len()).map(|s| m.n_ids(s)).sum();
        let on_poll = |v: &dyn DynModel, k: u32| {
            if poll_fail.borrow().is_some() {
                return;
            }
            if want_c04 {
                match check_c04(prog, v, &mut rng.borrow_mut()) {
                    Ok(st) => {
                        let mut c = c04_stats.borrow_mut();
                        c.0 = c.0.max(st.max_copies_per_rel);
                        c.1 = c.1.max(st.diagonal_copies);
                        *checks.borrow_mut() += 1;
                    }
                    Err((c, msg)) => {
                        *poll_fail.borrow_mut() = Some((c, format!("op {i} {} at poll {k}: {msg}", op.show(p))));
                        return;
                    }
                }
            }
            if want_c15 {
                match check_c15(prog, v, false) {
                    Ok(n) => {
                        *enum_checked.borrow_mut() += n as u64;
                        *checks.borrow_mut() += 1;
                    }
                    Err((c, msg)) => {
                        *poll_fail.borrow_mut() = Some((c, format!("op {i} {} at poll {k}: {msg}", op.show(p))));
                    }
                }
            }
        };
        let (res, _args) = apply_op(prog, m.as_mut(), op, &on_poll);
        if let Some(f) = poll_fail.borrow_mut().take() {
            return Err(f);
        }
        if let OpResult::Closed { ret, polls, budget_hit } = res {
            info.polls += polls as u64;
            info.max_polls_in_close = info.max_polls_in_close.max(polls);
            if budget_hit {
                info.budget_hit = true;
                break;
            }
            let n_after: usize = (0..p.sorts.len()).map(|s| m.n_ids(s)).sum();
            info.new_elements_by_close += (n_after - n_before) as u64;
            if ret {
                info.closes_cancelled += 1;
            } else {
                info.closes_completed += 1;
                if want_c01 {
                    check_c01(prog, m.as_ref()).map_err(|(c, msg)| (c, format!("after op {i} {}: {msg}", op.show(p))))?;
                    info.checks += 1;
                }
            }
            if want_c04 {
                let st = check_c04(prog, m.as_ref(), &mut rng.borrow_mut()).map_err(|(c, msg)| (c, format!("after op {i} {}: {msg}", op.show(p))))?;
                info.c04_max_copies = info.c04_max_copies.max(st.max_copies_per_rel);
                info.c04_diagonal_copies = info.c04_diagonal_copies.max(st.diagonal_copies);
                info.checks += 1;
            }
            if want_c15 {
                let n = check_c15(prog, m.as_ref(), !ret).map_err(|(c, msg)| (c, format!("after op {i} {}: {msg}", op.show(p))))?;
                info.enum_elements_checked += n as u64;
                info.checks += 1;
            }
        }
        if let Op::Equate { .. } = op {
            info.merges_between_closes += 1;
        }
    }
    info.checks += *checks.borrow();
    info.enum_elements_checked += *enum_checked.borrow();
    let c = c04_stats.borrow();
    info.c04_max_copies = info.c04_max_copies.max(c.0);
    info.c04_diagonal_copies = info.c04_diagonal_copies.max(c.1);
    info.final_fingerprint = dump(prog, m.as_ref()).hash();
    Ok(info)
}

/// C06: with only surjective rules close() terminates within a bound and adds no elements.
pub fn run_c06(prog: &Prog, ops: &[Op]) -> Result<RunInfo, Fail> {
    let p = &prog.program;
    let mut m = (prog.new)();
    let mut info = RunInfo::default();
    for (i, op) in ops.iter().enumerate() {
        info.steps += 1;
        match op {
            Op::Close | Op::CloseUntil { .. } => {
                let classes: Vec<usize> = (0..p.sorts.len()).map(|s| m.iter_sort(s).len()).collect();
                let ids: Vec<usize> = (0..p.sorts.len()).map(|s| m.n_ids(s)).collect();
                // every iteration that leaves the model dirty adds a tuple or merges two classes
                let mut bound: u64 = classes.iter().map(|c| *c as u64).sum();
                for r in &p.rels {
                    let mut t: u64 = 1;
                    for s in r.column_sorts() {
                        t = t.saturating_mul(classes[s].max(1) as u64);
                    }
                    bound = bound.saturating_add(t);
                }
                let bound = (2 * bound + 4).min(100_000) as u32;
                let stop_at = if let Op::CloseUntil { stop_at } = op { Some(*stop_at) } else { None };
                let res = budgeted_close_with(prog, m.as_mut(), stop_at, bound, &|_, _| {});
                if let OpResult::Closed { ret, polls, budget_hit } = res {
                    info.polls += polls as u64;
                    info.max_polls_in_close = info.max_polls_in_close.max(polls);
                    if budget_hit {
                        return Err((
                            "no-termination".into(),
                            format!(
                                "op {i}: close() of a program without `!` still dirty after {polls} iterations (bound {bound} for {:?} classes)",
                                classes
                            ),
                        ));
                    }
                    if ret {
                        info.closes_cancelled += 1;
                    } else {
                        info.closes_completed += 1;
                    }
                    for s in 0..p.sorts.len() {
                        let after = m.iter_sort(s).len();
                        if after > classes[s] {
                            return Err((
                                "elements-added".into(),
                                format!("op {i}: sort {} had {} elements before close and {} after", p.sorts[s].name, classes[s], after),
                            ));
                        }
                        if m.n_ids(s) != ids[s] {
                            return Err((
                                "ids-allocated".into(),
                                format!("op {i}: close allocated {} new ids of sort {}", m.n_ids(s) - ids[s], p.sorts[s].name),
                            ));
                        }
                    }
                    info.checks += 1;
                }
            }
            _ => {
                apply_op(prog, m.as_mut(), op, &|_, _| {});
            }
        }
    }
    info.final_fingerprint = dump(prog, m.as_ref()).hash();
    Ok(info)
}

/// Full transcript of a history: every return value and every iterator output, in order.
pub fn transcript(prog: &Prog, ops: &[Op]) -> (u64, RunInfo) {
    let p = &prog.program;
    let mut m = (prog.new)();
    let mut info = RunInfo::default();
    let mut h = Fnv::new();
    for op in ops.iter() {
        info.steps += 1;
        let ids_before: usize = (0..p.sorts.len()).map(|s| m.n_ids(s)).sum();
        let (res, args) = apply_op(prog, m.as_mut(), op, &|v, k| {
            // iteration order at every poll is part of the observable behaviour
            let _ = (v, k);
        });
        h.str(&format!("{res:?}{args:?}"));
        if let OpResult::Closed { polls, budget_hit, ret } = res {
            let ids_after: usize = (0..p.sorts.len()).map(|s| m.n_ids(s)).sum();
            info.new_elements_by_close += (ids_after - ids_before) as u64;
            info.polls += polls as u64;
            if ret {
                info.closes_cancelled += 1;
            } else {
                info.closes_completed += 1;
            }
            if budget_hit {
                info.budget_hit = true;
            }
        }
        let d = dump(prog, m.as_ref());
        h.u64(d.hash());
        for (s, sort) in p.sorts.iter().enumerate() {
            if let SortKind::Enum(_) = sort.kind {
                for el in &d.roots[s] {
                    h.str(&format!("{:?}", m.enum_cases(s, *el)));
                }
            }
        }
        if info.budget_hit {
            break;
        }
    }
    info.final_fingerprint = dump(prog, m.as_ref()).hash();
    info.transcript_hash = h.finish();
    (h.finish(), info)
}

/// C20 (in-process half): the same history on two fresh models gives identical transcripts.
pub fn run_c20(prog: &Prog, ops: &[Op]) -> Result<RunInfo, Fail> {
    let (h1, info) = transcript(prog, ops);
    // nondeterminism from per-instance random state shows with some probability per run: a few
    // repetitions (this also makes the replay of such a finding statistical; its identity is the
    // class and this message, which names no run-dependent detail)
    for _ in 0..6 {
        let (h2, _) = transcript(prog, ops);
        if h1 != h2 {
            return Err((
                "transcripts-differ".into(),
                "repeated runs of the same history in one process give different transcripts (ids, return values or iteration order)".into(),
            ));
        }
    }
    Ok(info)
}
