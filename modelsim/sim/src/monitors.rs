//! Invariant monitors evaluated on a live model: C01 (rules hold), C04 (canonical, all access
//! paths and all internal copies agree), C15 (enum elements destructure).

use crate::core::*;
use lang::ast::*;
use lang::structure::check_rules;
use mdrv::DynModel;
use simcore::Rng;
use std::collections::{BTreeMap, BTreeSet};

pub type Fail = (String, String);

/// C01: the dumped model satisfies every rule and every function graph is single-valued.
pub fn check_c01(prog: &Prog, m: &dyn DynModel) -> Result<(), Fail> {
    let d = dump(prog, m);
    // the naive re-evaluation is polynomial of high degree: models beyond this size are not judged
    if d.n_tuples() > 1500 {
        return Ok(());
    }
    let st = d.to_structure(&prog.program);
    match check_rules(&prog.program, &prog.paths, &st) {
        Ok(None) => Ok(()),
        Ok(Some(cx)) => {
            let class = if cx.rule.starts_with("<single-valuedness") { "not-single-valued" } else { "rule-violated" };
            Err((class.to_string(), cx.message()))
        }
        // too many assignments for the naive evaluation: this model is not judged
        Err(e) if e.0 == "too-big" => Ok(()),
        Err(e) => Err(("harness".into(), format!("reference cannot interpret the program: {}", e.0))),
    }
}

pub(crate) struct FieldInfo {
    /// Some(rel) for relation indices, None + sort for type sets
    pub(crate) rel: Option<usize>,
    pub(crate) sort: Option<usize>,
    pub(crate) new: bool,
    /// diagonal pattern: representative column for each column (None = plain index)
    pub(crate) eqs: Option<Vec<usize>>,
    pub(crate) order: Vec<usize>,
}

fn parse_nums(s: &str) -> Option<Vec<usize>> {
    if s.is_empty() {
        return Some(Vec::new());
    }
    s.split('_').map(|x| x.parse::<usize>().ok()).collect()
}

pub(crate) fn parse_field(p: &Program, field: &str) -> Option<FieldInfo> {
    // longest matching relation / sort name
    let mut best: Option<(usize, Option<usize>, Option<usize>)> = None; // (name len, rel, sort)
    for r in 0..p.rels.len() {
        let n = p.rel_snake(r);
        if field.starts_with(&format!("{n}_new_")) || field.starts_with(&format!("{n}_old_")) {
            if best.map(|b| n.len() > b.0).unwrap_or(true) {
                best = Some((n.len(), Some(r), None));
            }
        }
    }
    for s in 0..p.sorts.len() {
        let n = p.sort_snake(s);
        if field.starts_with(&format!("{n}_new_")) || field.starts_with(&format!("{n}_old_")) {
            if best.map(|b| n.len() > b.0).unwrap_or(true) {
                best = Some((n.len(), None, Some(s)));
            }
        }
    }
    let (len, rel, sort) = best?;
    let rest = &field[len + 1..];
    let (new, rest) = if let Some(r) = rest.strip_prefix("new_") {
        (true, r)
    } else if let Some(r) = rest.strip_prefix("old_") {
        (false, r)
    } else {
        return None;
    };
    let (eqs, order) = if let Some(r) = rest.strip_prefix("eqs_") {
        let (e, o) = r.split_once("_order_").or_else(|| r.strip_suffix("_order_").map(|e| (e, "")))?;
        (Some(parse_nums(e)?), parse_nums(o)?)
    } else {
        let o = rest.strip_prefix("order_")?;
        (None, parse_nums(o)?)
    };
    Some(FieldInfo { rel, sort, new, eqs, order })
}

/// Reconstructs the rows denoted by an index copy.
pub(crate) fn rows_of(fi: &FieldInfo, arity: usize, tuples: &[Vec<u32>]) -> Result<BTreeSet<Vec<u32>>, String> {
    let mut out = BTreeSet::new();
    for t in tuples {
        if t.len() != fi.order.len() {
            return Err(format!("tuple {t:?} does not fit order {:?}", fi.order));
        }
        let mut row = vec![u32::MAX; arity];
        // a diagonal copy stores one column per class of equal columns; its order permutes those
        let reps: Vec<usize> = match &fi.eqs {
            Some(eqs) => {
                let mut r: Vec<usize> = eqs.clone();
                r.sort();
                r.dedup();
                r
            }
            None => (0..arity).collect(),
        };
        for (i, c) in fi.order.iter().enumerate() {
            let col = match reps.get(*c) {
                Some(col) if *col < arity => *col,
                _ => return Err(format!("order {:?} does not fit the {} stored columns", fi.order, reps.len())),
            };
            row[col] = t[i];
        }
        if let Some(eqs) = &fi.eqs {
            if eqs.len() != arity {
                return Err(format!("pattern {eqs:?} does not fit arity {arity}"));
            }
            for c in 0..arity {
                row[c] = row[eqs[c]];
            }
        }
        if row.iter().any(|x| *x == u32::MAX) {
            return Err(format!("order {:?} / pattern {:?} leave a column of the row undetermined", fi.order, fi.eqs));
        }
        if !out.insert(row) {
            return Err(format!("index holds a row twice: {t:?}"));
        }
    }
    Ok(out)
}

pub(crate) fn satisfies(eqs: &[usize], row: &[u32]) -> bool {
    (0..row.len()).all(|c| row[c] == row[eqs[c]])
}

pub struct C04Stats {
    pub copies: usize,
    pub max_copies_per_rel: usize,
    pub diagonal_copies: usize,
    pub rows: usize,
}

/// C04 at a point where close / close_until has returned or evaluates its condition.
pub fn check_c04(prog: &Prog, m: &dyn DynModel, rng: &mut Rng) -> Result<C04Stats, Fail> {
    let p = &prog.program;
    let mut stats = C04Stats {
        copies: 0,
        max_copies_per_rel: 0,
        diagonal_copies: 0,
        rows: 0,
    };
    let idx = m.indices();
    let harness = |m: String| -> Fail { ("harness".into(), m) };
    // group the copies
    let mut rel_new: Vec<Vec<(String, Option<Vec<usize>>, BTreeSet<Vec<u32>>)>> = vec![Vec::new(); p.rels.len()];
    let mut rel_old = rel_new.clone();
    let mut sort_new: Vec<Option<BTreeSet<u32>>> = vec![None; p.sorts.len()];
    let mut sort_old: Vec<Option<BTreeSet<u32>>> = vec![None; p.sorts.len()];
    for d in &idx {
        let fi = parse_field(p, &d.field).ok_or_else(|| harness(format!("cannot parse index field name {}", d.field)))?;
        stats.copies += 1;
        if let Some(r) = fi.rel {
            let rows = rows_of(&fi, p.rels[r].arity(), &d.tuples).map_err(|e| ("index-copies-disagree".to_string(), format!("{}: {e}", d.field)))?;
            if fi.eqs.is_some() {
                stats.diagonal_copies += 1;
            }
            if fi.new {
                rel_new[r].push((d.field.clone(), fi.eqs, rows));
            } else {
                rel_old[r].push((d.field.clone(), fi.eqs, rows));
            }
        } else if let Some(s) = fi.sort {
            let set: BTreeSet<u32> = d.tuples.iter().map(|t| t[0]).collect();
            if set.len() != d.tuples.len() {
                return Err(("type-set".into(), format!("{} lists an element twice", d.field)));
            }
            if fi.new {
                sort_new[s] = Some(set);
            } else {
                sort_old[s] = Some(set);
            }
        }
    }
    // type sets: new and old disjoint, together exactly one id per class, all roots
    for s in 0..p.sorts.len() {
        let n = sort_new[s].clone().ok_or_else(|| harness(format!("no new type set for sort {s}")))?;
        let o = sort_old[s].clone().ok_or_else(|| harness(format!("no old type set for sort {s}")))?;
        if let Some(x) = n.intersection(&o).next() {
            return Err(("type-set".into(), format!("{}#{x} is in the new and in the old type set", p.sorts[s].name)));
        }
        let all: BTreeSet<u32> = n.union(&o).copied().collect();
        let want: BTreeSet<u32> = (0..m.n_ids(s) as u32).map(|x| m.root(s, x)).collect();
        if all != want {
            return Err((
                "type-set".into(),
                format!("type sets of {} hold {:?} but the roots are {:?}", p.sorts[s].name, all, want),
            ));
        }
        let it = m.iter_sort(s);
        let it_set: BTreeSet<u32> = it.iter().copied().collect();
        if it_set.len() != it.len() || it_set != want {
            return Err(("iter-type".into(), format!("iter_{} yields {:?}, expected one representative per class {:?}", p.sort_snake(s), it, want)));
        }
        for x in 0..m.n_ids(s) as u32 {
            let r = m.root(s, x);
            if m.root(s, r) != r || !m.are_equal(s, x, r) {
                return Err(("root".into(), format!("root_{} is not an idempotent representative at {x}", p.sort_snake(s))));
            }
        }
    }
    let up = m.uprooted();
    for (s, u) in up.iter().enumerate() {
        if !u.is_empty() {
            return Err(("uprooted".into(), format!("uprooted list of {} is not empty: {:?}", p.sorts[s].name, u)));
        }
    }
    // class members (for substituting equal ids)
    let mut members: Vec<BTreeMap<u32, Vec<u32>>> = vec![BTreeMap::new(); p.sorts.len()];
    for s in 0..p.sorts.len() {
        for x in 0..m.n_ids(s) as u32 {
            members[s].entry(m.root(s, x)).or_default().push(x);
        }
    }
    let el_idx: BTreeMap<String, BTreeMap<u32, Vec<Vec<u32>>>> = m
        .element_indices()
        .into_iter()
        .map(|(f, v)| (f, v.into_iter().collect()))
        .collect();
    let mut rel_all: Vec<BTreeSet<Vec<u32>>> = vec![BTreeSet::new(); p.rels.len()];
    for r in 0..p.rels.len() {
        let rel = &p.rels[r];
        let cols = rel.column_sorts();
        stats.max_copies_per_rel = stats.max_copies_per_rel.max(rel_new[r].len() + rel_old[r].len());
        let mut sets: Vec<BTreeSet<Vec<u32>>> = Vec::new();
        for (age, copies) in [("new", &rel_new[r]), ("old", &rel_old[r])] {
            let plain: Vec<&(String, Option<Vec<usize>>, BTreeSet<Vec<u32>>)> = copies.iter().filter(|c| c.1.is_none()).collect();
            let base = match plain.first() {
                Some(b) => b,
                None => {
                    if copies.is_empty() {
                        sets.push(BTreeSet::new());
                        continue;
                    }
                    return Err(harness(format!("{} has only diagonal {age} copies", rel.name)));
                }
            };
            for c in &plain[1..] {
                if c.2 != base.2 {
                    return Err((
                        "index-copies-disagree".into(),
                        format!("{} and {} denote different sets: {:?} vs {:?}", base.0, c.0, base.2, c.2),
                    ));
                }
            }
            for c in copies.iter().filter(|c| c.1.is_some()) {
                let eqs = c.1.as_ref().unwrap();
                let want: BTreeSet<Vec<u32>> = base.2.iter().filter(|row| satisfies(eqs, row)).cloned().collect();
                if c.2 != want {
                    return Err((
                        "index-copies-disagree".into(),
                        format!("diagonal copy {} holds {:?} but the rows of {} that satisfy its pattern are {:?}", c.0, c.2, base.0, want),
                    ));
                }
            }
            sets.push(base.2.clone());
        }
        let (n, o) = (&sets[0], &sets[1]);
        if let Some(t) = n.intersection(o).next() {
            return Err(("new-old-overlap".into(), format!("{}{:?} is in a new and in an old index", rel.name, t)));
        }
        let all: BTreeSet<Vec<u32>> = n.union(o).cloned().collect();
        stats.rows += all.len();
        rel_all[r] = all.clone();
        for t in &all {
            for (i, x) in t.iter().enumerate() {
                if m.root(cols[i], *x) != *x {
                    return Err(("non-canonical-row".into(), format!("{}{:?}: component {i} is not a root", rel.name, t)));
                }
            }
            // element index lists the row under each distinct component
            for (i, x) in t.iter().enumerate() {
                let f = format!("{}_{}_element_index", p.rel_snake(r), p.sort_snake(cols[i]));
                match el_idx.get(&f) {
                    None => return Err(harness(format!("no element index field {f}"))),
                    Some(map) => {
                        if !map.get(x).map(|rows| rows.contains(t)).unwrap_or(false) {
                            return Err((
                                "element-index".into(),
                                format!("{f} does not list row {t:?} under element {x}"),
                            ));
                        }
                    }
                }
            }
        }
        // public iterator
        if let Some(it) = m.iter_rel(r) {
            let set: BTreeSet<Vec<u32>> = it.iter().cloned().collect();
            if set.len() != it.len() {
                return Err(("iter-duplicate".into(), format!("iter_{} yields a tuple twice: {:?}", p.rel_snake(r), it)));
            }
            if set != all {
                return Err(("iter-vs-index".into(), format!("iter_{} yields {:?} but the indices hold {:?}", p.rel_snake(r), set, all)));
            }
        }
        // point queries agree with membership and are invariant under equal arguments
        let mut probes: Vec<Vec<u32>> = all.iter().cloned().collect();
        for _ in 0..4 {
            // random tuples over roots (mostly non-members)
            let t: Option<Vec<u32>> = cols
                .iter()
                .map(|s| {
                    let roots: Vec<u32> = members[*s].keys().copied().collect();
                    if roots.is_empty() {
                        None
                    } else {
                        Some(*rng.pick(&roots))
                    }
                })
                .collect();
            if let Some(t) = t {
                probes.push(t);
            }
        }
        for t in probes {
            let want = all.contains(&t);
            // substitute an arbitrary equal id for each component
            let alt: Vec<u32> = t.iter().enumerate().map(|(i, x)| *rng.pick(&members[cols[i]][x])).collect();
            for q in [&t, &alt] {
                if rel.is_func() {
                    // before the model is closed a function graph may hold several values for one
                    // argument tuple: the evaluation must then return one of them
                    let n = cols.len();
                    let got = m.eval(r, &q[..n - 1]);
                    let values: BTreeSet<u32> = all.iter().filter(|row| row[..n - 1] == t[..n - 1]).map(|row| row[n - 1]).collect();
                    let ok = match got {
                        None => values.is_empty(),
                        Some(v) => values.contains(&v),
                    };
                    if !ok || got != m.eval(r, &t[..n - 1]) {
                        return Err((
                            "point-query".into(),
                            format!("{}({:?}) = {:?} but the table holds the values {:?} (asked with {:?})", rel.name, &t[..n - 1], got, values, q),
                        ));
                    }
                } else if m.holds(r, q) != want {
                    return Err((
                        "point-query".into(),
                        format!("{}({:?}) answers {} but membership is {} (asked with {:?})", rel.name, t, !want, want, q),
                    ));
                }
            }
        }
    }
    // enum case queries = rows of the constructor graphs
    for (s, sort) in p.sorts.iter().enumerate() {
        if let SortKind::Enum(ctors) = &sort.kind {
            for el in m.iter_sort(s) {
                let got: BTreeSet<(usize, Vec<u32>)> = m.enum_cases(s, el).into_iter().collect();
                let mut want = BTreeSet::new();
                for c in ctors {
                    let n = p.rels[*c].arity();
                    for row in rel_all[*c].iter() {
                        if row[n - 1] == el {
                            want.insert((*c, row[..n - 1].to_vec()));
                        }
                    }
                }
                if got != want {
                    return Err(("enum-cases".into(), format!("{}_cases({el}) = {:?} but the constructor graphs say {:?}", p.sort_snake(s), got, want)));
                }
                // invariant under replacing the argument by an equal element
                for alt in &members[s][&el] {
                    let got_alt: BTreeSet<(usize, Vec<u32>)> = m.enum_cases(s, *alt).into_iter().collect();
                    if got_alt != want {
                        return Err((
                            "enum-cases".into(),
                            format!("{}_cases({alt}) = {:?} but for the equal element {el} it is {:?}", p.sort_snake(s), got_alt, want),
                        ));
                    }
                }
            }
        }
    }
    Ok(stats)
}

/// C15: every element of every enum sort destructures.
pub fn check_c15(prog: &Prog, m: &dyn DynModel, closed: bool) -> Result<usize, Fail> {
    let p = &prog.program;
    let mut checked = 0;
    for (s, sort) in p.sorts.iter().enumerate() {
        if let SortKind::Enum(_) = &sort.kind {
            // every id ever handed out, not only the current representatives: a handle that lost a
            // merge is still an element of the enum type
            for el in 0..m.n_ids(s) as u32 {
                checked += 1;
                let cases = m.enum_cases(s, el);
                if cases.is_empty() {
                    return Err(("no-case".into(), format!("element {}#{el} is not the value of any constructor application", sort.name)));
                }
                let r = std::panic::catch_unwind(std::panic::AssertUnwindSafe(|| m.enum_case(s, el)));
                match r {
                    Err(pn) => return Err(("case-panics".into(), format!("{}_case({el}) panicked: {}", p.sort_snake(s), panic_message(&pn)))),
                    // before the model is closed constructor graphs need not be single-valued yet
                    Ok(_) if !closed => {}
                    Ok((c, args)) => match m.eval(c, &args) {
                        Some(v) if m.are_equal(s, v, el) => {}
                        other => {
                            return Err((
                                "case-wrong".into(),
                                format!("{}_case({el}) = {}{:?} but that application evaluates to {:?}", p.sort_snake(s), p.rels[c].name, args, other),
                            ))
                        }
                    },
                }
            }
        }
    }
    Ok(checked)
}
