//! Programs, dumps, histories and their execution against a generated model.

use lang::ast::*;
use lang::structure::{compile_paths, CPath, Structure};
use mdrv::{DynModel, Entry};
use simcore::{Fnv, Json, Rng};
use std::cell::Cell;
use std::collections::{BTreeMap, BTreeSet};

pub struct ModelInfo {
    pub model_sort: usize,
    pub mor_sort: usize,
    pub dom_rel: usize,
    pub cod_rel: usize,
    pub member_rels: Vec<usize>,
    pub constants: Vec<usize>,
    pub n_user_rules: usize,
    /// member types: (sort, membership relation, morphism-application function)
    pub member_sorts: Vec<(usize, usize, usize)>,
}

pub struct Prog {
    /// runs are abandoned when a model holds more ids than this at a poll (see id_budget_for)
    pub id_budget: usize,
    pub model: Option<ModelInfo>,
    pub name: String,
    pub source: String,
    pub program: Program,
    pub paths: Vec<CPath>,
    pub new: fn() -> Box<dyn DynModel>,
    pub surjective: bool,
}

pub fn load_progs(entries: &[Entry]) -> Result<Vec<Prog>, String> {
    let mut out = Vec::new();
    for e in entries {
        let mut model = None;
        let program = if let Some(rest) = e.origin.strip_prefix("gen:") {
            let mut it = rest.split(':');
            let seed: u64 = it.next().and_then(|s| s.parse().ok()).ok_or("bad origin")?;
            let index: u64 = it.next().and_then(|s| s.parse().ok()).ok_or("bad origin")?;
            let mut rng = Rng::new(simcore::rng::derive_seed(seed, 4242, index));
            let knobs = lang::gen::GenKnobs::draw(&mut rng);
            let program = lang::gen::gen_program(&mut rng, &knobs);
            if lang::print::program(&program) != e.source {
                return Err(format!("{}: regenerated program differs from the compiled source", e.name));
            }
            program
        } else if let Some(rest) = e.origin.strip_prefix("genmodel:") {
            let mut it = rest.split(':');
            let seed: u64 = it.next().and_then(|s| s.parse().ok()).ok_or("bad origin")?;
            let index: u64 = it.next().and_then(|s| s.parse().ok()).ok_or("bad origin")?;
            let mut rng = Rng::new(simcore::rng::derive_seed(seed, 4343, index));
            let mp = lang::gen::gen_model_program(&mut rng);
            if mp.text != e.source {
                return Err(format!("{}: regenerated model program differs from the compiled source", e.name));
            }
            model = Some(ModelInfo {
                model_sort: mp.model_sort,
                mor_sort: mp.mor_sort,
                dom_rel: mp.dom_rel,
                cod_rel: mp.cod_rel,
                member_rels: mp.member_rels,
                constants: mp.constants,
                n_user_rules: mp.n_user_rules,
                member_sorts: mp.member_sorts,
            });
            mp.program
        } else if let Some(rest) = e.origin.strip_prefix("genmember:") {
            let mut it = rest.split(':');
            let seed: u64 = it.next().and_then(|s| s.parse().ok()).ok_or("bad origin")?;
            let index: u64 = it.next().and_then(|s| s.parse().ok()).ok_or("bad origin")?;
            let mut rng = Rng::new(simcore::rng::derive_seed(seed, 4444, index));
            let mp = lang::gen::gen_member_program(&mut rng);
            if mp.text != e.source {
                return Err(format!("{}: regenerated member-type program differs from the compiled source", e.name));
            }
            model = Some(ModelInfo {
                model_sort: mp.model_sort,
                mor_sort: mp.mor_sort,
                dom_rel: mp.dom_rel,
                cod_rel: mp.cod_rel,
                member_rels: mp.member_rels,
                constants: mp.constants,
                n_user_rules: mp.n_user_rules,
                member_sorts: mp.member_sorts,
            });
            mp.program
        } else if e.origin == "parse" {
            lang::parse::parse_program(e.source).map_err(|err| format!("{}: {err}", e.name))?
        } else {
            return Err(format!("{}: unsupported origin {}", e.name, e.origin));
        };
        let paths = compile_paths(&program);
        let surjective = !program.has_nonsurjective();
        out.push(Prog {
            id_budget: id_budget_for(&program),
            model,
            name: e.name.to_string(),
            source: e.source.to_string(),
            program,
            paths,
            new: e.new,
            surjective,
        });
    }
    Ok(out)
}

/// One iteration after the budget is exceeded must still be cheap, because the budget is only
/// looked at when close_until polls its condition: a `!` rule on a function of arity k can turn n
/// elements into n^k within one iteration, and the next iteration joins over those.
fn id_budget_for(p: &Program) -> usize {
    fn walk(ss: &[Stmt], p: &Program, k: &mut usize) {
        fn term_arity(t: &Term, p: &Program, k: &mut usize) {
            if let Term::App(r, args) = t {
                *k = (*k).max(p.rels[*r].args.len());
                for a in args {
                    term_arity(a, p, k);
                }
            }
        }
        for s in ss {
            match s {
                Stmt::Then(Atom::Defined(t)) | Stmt::Then(Atom::DefinedAs(_, t)) => term_arity(t, p, k),
                Stmt::Branch(bs) => bs.iter().for_each(|b| walk(b, p, k)),
                Stmt::Match(_, cs) => cs.iter().for_each(|c| walk(&c.body, p, k)),
                _ => {}
            }
        }
    }
    let mut k = 0;
    for r in &p.rules {
        walk(&r.stmts, p, &mut k);
    }
    match k {
        0 | 1 => ID_BUDGET,
        2 => 14,
        _ => 6,
    }
}

// ---------------------------------------------------------------------------------------------
// dumps

#[derive(Clone, Debug, PartialEq)]
pub struct Dump {
    pub n_ids: Vec<usize>,
    pub roots: Vec<Vec<u32>>,
    /// root of every id, per sort
    pub root_of: Vec<Vec<u32>>,
    pub rels: Vec<Vec<Vec<u32>>>,
}

pub fn dump(prog: &Prog, m: &dyn DynModel) -> Dump {
    let p = &prog.program;
    let n_ids: Vec<usize> = (0..p.sorts.len()).map(|s| m.n_ids(s)).collect();
    let roots = (0..p.sorts.len()).map(|s| m.iter_sort(s)).collect();
    let root_of = (0..p.sorts.len()).map(|s| (0..n_ids[s] as u32).map(|x| m.root(s, x)).collect()).collect();
    let rels = (0..p.rels.len())
        .map(|r| match m.iter_rel(r) {
            Some(ts) => ts,
            None => {
                if m.holds(r, &[]) {
                    vec![vec![]]
                } else {
                    vec![]
                }
            }
        })
        .collect();
    Dump {
        n_ids,
        roots,
        root_of,
        rels,
    }
}

impl Dump {
    /// The dump as a reference structure (ids as in the real model). Tuples are inserted as they
    /// are (no normalisation), so defects of the dump stay visible to the checks run on it.
    pub fn to_structure(&self, p: &Program) -> Structure {
        let mut st = Structure::new(p);
        for s in 0..p.sorts.len() {
            st.ensure_ids(s, self.n_ids[s]);
            for (x, r) in self.root_of[s].iter().enumerate() {
                st.parent[s][x] = *r;
            }
        }
        for (r, ts) in self.rels.iter().enumerate() {
            for t in ts {
                st.tables[r].insert(t.clone());
            }
        }
        st
    }
    pub fn hash(&self) -> u64 {
        let mut h = Fnv::new();
        for s in 0..self.n_ids.len() {
            h.u64(self.n_ids[s] as u64);
            for x in &self.roots[s] {
                h.u32(*x);
            }
            h.u32(u32::MAX);
            for x in &self.root_of[s] {
                h.u32(*x);
            }
        }
        for ts in &self.rels {
            h.u32(u32::MAX - 1);
            for t in ts {
                for x in t {
                    h.u32(*x);
                }
                h.u32(u32::MAX);
            }
        }
        h.finish()
    }
    pub fn n_tuples(&self) -> usize {
        self.rels.iter().map(|r| r.len()).sum()
    }
    pub fn n_classes(&self) -> usize {
        self.roots.iter().map(|r| r.len()).sum()
    }
}

// ---------------------------------------------------------------------------------------------
// isomorphism up to renaming of derived elements

/// Checks that `a` and `b` are isomorphic by a map that extends the seed pairs (sort, id in a,
/// id in b), propagated along function graphs. Err(message) describes the first discrepancy.
pub fn check_iso(p: &Program, a: &Structure, b: &Structure, seeds: &[(usize, u32, u32)], a_name: &str, b_name: &str) -> Result<(), (String, String)> {
    let ns = p.sorts.len();
    let mut fwd: Vec<BTreeMap<u32, u32>> = vec![BTreeMap::new(); ns];
    let mut bwd: Vec<BTreeMap<u32, u32>> = vec![BTreeMap::new(); ns];
    let mut link = |s: usize, x: u32, y: u32, why: &str, fwd: &mut Vec<BTreeMap<u32, u32>>, bwd: &mut Vec<BTreeMap<u32, u32>>| -> Result<bool, (String, String)> {
        let rx = a.root(s, x);
        let ry = b.root(s, y);
        match (fwd[s].get(&rx), bwd[s].get(&ry)) {
            (Some(y2), _) if *y2 != ry => Err((
                "spurious-or-missing-equality".into(),
                format!(
                    "{why}: element {}#{rx} of {a_name} corresponds to both {}#{y2} and {}#{ry} of {b_name} (these are different there)",
                    p.sorts[s].name, p.sorts[s].name, p.sorts[s].name
                ),
            )),
            (_, Some(x2)) if *x2 != rx => Err((
                "spurious-or-missing-equality".into(),
                format!(
                    "{why}: elements {}#{x2} and {}#{rx} of {a_name} are different but both correspond to {}#{ry} of {b_name}",
                    p.sorts[s].name, p.sorts[s].name, p.sorts[s].name
                ),
            )),
            (Some(_), Some(_)) => Ok(false),
            _ => {
                fwd[s].insert(rx, ry);
                bwd[s].insert(ry, rx);
                Ok(true)
            }
        }
    };
    for (s, x, y) in seeds {
        link(*s, *x, *y, "caller-created element", &mut fwd, &mut bwd)?;
    }
    // extend along function graphs, in both directions
    loop {
        let mut progress = false;
        for (r, rel) in p.rels.iter().enumerate() {
            if !rel.is_func() {
                continue;
            }
            let cols = rel.column_sorts();
            let n = cols.len();
            for t in a.tables[r].iter() {
                let t = a.canon_tuple(r, t);
                if fwd[cols[n - 1]].contains_key(&t[n - 1]) {
                    continue;
                }
                let args: Option<Vec<u32>> = (0..n - 1).map(|i| fwd[cols[i]].get(&t[i]).copied()).collect();
                if let Some(args) = args {
                    if let Some(v) = b.eval(r, &args) {
                        if link(cols[n - 1], t[n - 1], v, &format!("value of {}{:?}", rel.name, &t[..n - 1]), &mut fwd, &mut bwd)? {
                            progress = true;
                        }
                    }
                }
            }
        }
        if !progress {
            break;
        }
    }
    // every element must be matched
    for s in 0..ns {
        for x in a.roots(s) {
            if !fwd[s].contains_key(&x) {
                return Err((
                    "extra-element".into(),
                    format!("{a_name} has element {}#{x} that is not the value of any term over the caller's elements in {b_name}", p.sorts[s].name),
                ));
            }
        }
        for y in b.roots(s) {
            if !bwd[s].contains_key(&y) {
                return Err((
                    "missing-element".into(),
                    format!("{b_name} has element {}#{y} without a counterpart in {a_name}", p.sorts[s].name),
                ));
            }
        }
    }
    // tables agree both ways
    for (r, rel) in p.rels.iter().enumerate() {
        let cols = rel.column_sorts();
        let mapped: BTreeSet<Vec<u32>> = a.tables[r]
            .iter()
            .map(|t| a.canon_tuple(r, t).iter().enumerate().map(|(i, x)| fwd[cols[i]][x]).collect())
            .collect();
        let want: BTreeSet<Vec<u32>> = b.tables[r].iter().map(|t| b.canon_tuple(r, t)).collect();
        if let Some(t) = mapped.difference(&want).next() {
            let back: Vec<u32> = t.iter().enumerate().map(|(i, y)| bwd[cols[i]][y]).collect();
            return Err((
                "spurious-tuple".into(),
                format!("{a_name} has {}{:?} but {b_name} has no corresponding tuple {:?}", rel.name, back, t),
            ));
        }
        if let Some(t) = want.difference(&mapped).next() {
            return Err(("missing-tuple".into(), format!("{b_name} has {}{:?} but {a_name} lacks the corresponding tuple", rel.name, t)));
        }
    }
    Ok(())
}

// ---------------------------------------------------------------------------------------------
// histories

/// A reference to an element: index into the ids handed out so far for the sort (modulo count).
pub type Ref = u32;

#[derive(Clone, Debug, PartialEq)]
pub enum Op {
    NewEl { sort: usize },
    /// `new_<member type>(parent)`: an element of a member type inside the model element `parent`
    NewMember { sort: usize, parent: Ref },
    NewEnum { ctor: usize, args: Vec<Ref> },
    Insert { rel: usize, args: Vec<Ref> },
    Define { rel: usize, args: Vec<Ref> },
    Equate { sort: usize, a: Ref, b: Ref },
    Close,
    /// close_until with a condition that becomes true at the given poll (0 = first poll)
    CloseUntil { stop_at: u32 },
}

impl Op {
    pub fn to_json(&self) -> Json {
        let refs = |v: &Vec<Ref>| Json::arr_u32(v);
        match self {
            Op::NewEl { sort } => Json::Arr(vec![Json::str("new"), Json::Int(*sort as i64)]),
            Op::NewMember { sort, parent } => Json::Arr(vec![Json::str("new_member"), Json::Int(*sort as i64), Json::Int(*parent as i64)]),
            Op::NewEnum { ctor, args } => Json::Arr(vec![Json::str("new_enum"), Json::Int(*ctor as i64), refs(args)]),
            Op::Insert { rel, args } => Json::Arr(vec![Json::str("insert"), Json::Int(*rel as i64), refs(args)]),
            Op::Define { rel, args } => Json::Arr(vec![Json::str("define"), Json::Int(*rel as i64), refs(args)]),
            Op::Equate { sort, a, b } => Json::Arr(vec![Json::str("equate"), Json::Int(*sort as i64), Json::Int(*a as i64), Json::Int(*b as i64)]),
            Op::Close => Json::Arr(vec![Json::str("close")]),
            Op::CloseUntil { stop_at } => Json::Arr(vec![Json::str("close_until"), Json::Int(*stop_at as i64)]),
        }
    }
    pub fn from_json(j: &Json) -> Option<Op> {
        let a = j.as_arr()?;
        let refs = |j: &Json| -> Option<Vec<Ref>> { j.as_arr()?.iter().map(|x| x.as_u64().map(|v| v as u32)).collect() };
        Some(match a.first()?.as_str()? {
            "new" => Op::NewEl { sort: a.get(1)?.as_u64()? as usize },
            "new_member" => Op::NewMember {
                sort: a.get(1)?.as_u64()? as usize,
                parent: a.get(2)?.as_u64()? as u32,
            },
            "new_enum" => Op::NewEnum {
                ctor: a.get(1)?.as_u64()? as usize,
                args: refs(a.get(2)?)?,
            },
            "insert" => Op::Insert {
                rel: a.get(1)?.as_u64()? as usize,
                args: refs(a.get(2)?)?,
            },
            "define" => Op::Define {
                rel: a.get(1)?.as_u64()? as usize,
                args: refs(a.get(2)?)?,
            },
            "equate" => Op::Equate {
                sort: a.get(1)?.as_u64()? as usize,
                a: a.get(2)?.as_u64()? as u32,
                b: a.get(3)?.as_u64()? as u32,
            },
            "close" => Op::Close,
            "close_until" => Op::CloseUntil { stop_at: a.get(1)?.as_u64()? as u32 },
            _ => return None,
        })
    }
    /// Human-readable form with sort / relation names.
    pub fn show(&self, p: &Program) -> String {
        match self {
            Op::NewEl { sort } => format!("new_{}()", p.sort_snake(*sort)),
            Op::NewMember { sort, parent } => format!("new_{}({parent})", p.sort_snake(*sort)),
            Op::NewEnum { ctor, args } => format!("new {}({:?})", p.rels[*ctor].name, args),
            Op::Insert { rel, args } => format!("insert_{}({:?})", p.rel_snake(*rel), args),
            Op::Define { rel, args } => format!("define_{}({:?})", p.rel_snake(*rel), args),
            Op::Equate { sort, a, b } => format!("equate_{}({a}, {b})", p.sort_snake(*sort)),
            Op::Close => "close()".into(),
            Op::CloseUntil { stop_at } => format!("close_until(stop at poll {stop_at})"),
        }
    }
}

pub fn ops_to_json(ops: &[Op]) -> Json {
    Json::Arr(ops.iter().map(|o| o.to_json()).collect())
}

pub fn ops_from_json(j: &Json) -> Option<Vec<Op>> {
    j.as_arr()?.iter().map(Op::from_json).collect()
}

#[derive(Clone, Debug)]
pub struct HistKnobs {
    pub len: usize,
    pub w_new: u32,
    pub w_insert: u32,
    pub w_define: u32,
    pub w_equate: u32,
    pub w_close: u32,
    pub w_cancel: u32,
    pub dup_rate: u32, // percent
    pub max_closes: usize,
}

impl HistKnobs {
    pub fn draw(rng: &mut Rng) -> HistKnobs {
        HistKnobs {
            len: rng.range(4, 40) as usize,
            w_new: rng.range(2, 8) as u32,
            w_insert: rng.range(4, 12) as u32,
            w_define: rng.range(0, 4) as u32,
            w_equate: if rng.chance(1, 4) { 0 } else { rng.range(1, 4) as u32 },
            w_close: rng.range(0, 3) as u32,
            w_cancel: if rng.chance(1, 2) { 0 } else { rng.range(1, 3) as u32 },
            dup_rate: *rng.pick(&[0u32, 5, 20]),
            max_closes: 5,
        }
    }
}

/// Generates a history. Argument references are raw u32s resolved modulo the number of ids at
/// execution time, so any subsequence of a history is again a valid history.
pub fn gen_history(prog: &Prog, rng: &mut Rng, k: &HistKnobs, end_with_close: bool) -> Vec<Op> {
    let p = &prog.program;
    let mut ops: Vec<Op> = Vec::new();
    let plain: Vec<usize> = (0..p.sorts.len()).filter(|s| p.sorts[*s].kind == SortKind::Plain).collect();
    let ctors: Vec<usize> = (0..p.rels.len()).filter(|r| matches!(p.rels[*r].kind, RelKind::Ctor(_))).collect();
    let funcs: Vec<usize> = (0..p.rels.len()).filter(|r| p.rels[*r].is_func()).collect();
    let mut closes = 0;
    // a few elements first so that early inserts have arguments
    for s in &plain {
        for _ in 0..rng.range(1, 3) {
            ops.push(Op::NewEl { sort: *s });
        }
    }
    // small id universe: references are drawn from a narrow range so that collisions happen
    let r = |rng: &mut Rng| rng.below(8) as u32;
    while ops.len() < k.len {
        let w = [k.w_new, k.w_insert, k.w_define, k.w_equate, k.w_close, k.w_cancel];
        let op = match rng.weighted(&w) {
            0 => {
                if !ctors.is_empty() && rng.chance(1, 3) {
                    let c = *rng.pick(&ctors);
                    Op::NewEnum {
                        ctor: c,
                        args: p.rels[c].args.iter().map(|_| r(rng)).collect(),
                    }
                } else if !plain.is_empty() {
                    Op::NewEl { sort: *rng.pick(&plain) }
                } else {
                    continue;
                }
            }
            1 => {
                if p.rels.is_empty() {
                    continue;
                }
                let rel = rng.usize_below(p.rels.len());
                Op::Insert {
                    rel,
                    args: (0..p.rels[rel].arity()).map(|_| r(rng)).collect(),
                }
            }
            2 => {
                if funcs.is_empty() {
                    continue;
                }
                let rel = *rng.pick(&funcs);
                Op::Define {
                    rel,
                    args: p.rels[rel].args.iter().map(|_| r(rng)).collect(),
                }
            }
            3 => {
                if p.sorts.is_empty() {
                    continue;
                }
                Op::Equate {
                    sort: rng.usize_below(p.sorts.len()),
                    a: r(rng),
                    b: r(rng),
                }
            }
            4 => {
                if closes >= k.max_closes {
                    continue;
                }
                closes += 1;
                Op::Close
            }
            _ => {
                if closes >= k.max_closes {
                    continue;
                }
                closes += 1;
                Op::CloseUntil { stop_at: rng.below(4) as u32 }
            }
        };
        let dup = matches!(op, Op::Insert { .. } | Op::Equate { .. } | Op::Define { .. }) && rng.below(100) < k.dup_rate as u64;
        ops.push(op.clone());
        if dup {
            ops.push(op);
        }
    }
    if end_with_close {
        ops.push(Op::Close);
    }
    ops
}

/// What happened when an op was applied to the real model.
#[derive(Clone, Debug, PartialEq)]
pub enum OpResult {
    Skipped,
    Id(u32),
    Unit,
    /// close / close_until: (returned value, number of polls, stopped by budget)
    Closed { ret: bool, polls: u32, budget_hit: bool },
}

pub const POLL_BUDGET: u32 = 120;
pub const ID_BUDGET: usize = 80;
pub const TUPLE_BUDGET: usize = 4000;

pub fn resolve(m: &dyn DynModel, sort: usize, r: Ref) -> Option<u32> {
    let n = m.n_ids(sort);
    if n == 0 {
        None
    } else {
        Some(r % n as u32)
    }
}

pub fn resolve_args(prog: &Prog, m: &dyn DynModel, sorts: &[usize], refs: &[Ref]) -> Option<Vec<u32>> {
    let _ = prog;
    sorts.iter().zip(refs.iter()).map(|(s, r)| resolve(m, *s, *r)).collect()
}

/// close() with a budget: the generated close is `close_until(|_| false)`; the budget closure
/// returns true only when the run is abandoned (too many polls / too many elements).
pub fn budgeted_close(prog: &Prog, m: &mut dyn DynModel, stop_at: Option<u32>, on_poll: &dyn Fn(&dyn DynModel, u32)) -> OpResult {
    budgeted_close_with(prog, m, stop_at, POLL_BUDGET, on_poll)
}

pub fn budgeted_close_with(prog: &Prog, m: &mut dyn DynModel, stop_at: Option<u32>, poll_budget: u32, on_poll: &dyn Fn(&dyn DynModel, u32)) -> OpResult {
    let polls = Cell::new(0u32);
    let budget_hit = Cell::new(false);
    let ns = prog.program.sorts.len();
    let ret = m.close_until(&|v: &dyn DynModel| {
        let k = polls.get();
        polls.set(k + 1);
        on_poll(v, k);
        if let Some(s) = stop_at {
            if k >= s {
                return true;
            }
        }
        let ids: usize = (0..ns).map(|s| v.n_ids(s)).sum();
        let too_many_tuples = ids > 40 && {
            let nr = prog.program.rels.len();
            (0..nr).map(|r| v.iter_rel(r).map(|t| t.len()).unwrap_or(0)).sum::<usize>() > TUPLE_BUDGET
        };
        if k >= poll_budget || ids > prog.id_budget || too_many_tuples {
            budget_hit.set(true);
            return true;
        }
        false
    });
    OpResult::Closed {
        ret,
        polls: polls.get(),
        budget_hit: budget_hit.get(),
    }
}

/// Applies one op to the real model (arguments resolved against the ids handed out so far).
pub fn apply_op(prog: &Prog, m: &mut dyn DynModel, op: &Op, on_poll: &dyn Fn(&dyn DynModel, u32)) -> (OpResult, Vec<u32>) {
    let p = &prog.program;
    match op {
        Op::NewEl { sort } => {
            if p.sorts[*sort].kind != SortKind::Plain {
                return (OpResult::Skipped, vec![]);
            }
            (OpResult::Id(m.new_el(*sort)), vec![])
        }
        Op::NewMember { sort, parent } => match &p.sorts[*sort].kind {
            SortKind::Member { model_sort, .. } => match resolve(m, *model_sort, *parent) {
                Some(par) => (OpResult::Id(m.new_member(*sort, par)), vec![par]),
                None => (OpResult::Skipped, vec![]),
            },
            _ => (OpResult::Skipped, vec![]),
        },
        Op::NewEnum { ctor, args } => match resolve_args(prog, m, &p.rels[*ctor].args, args) {
            Some(a) => (OpResult::Id(m.new_enum(*ctor, &a)), a),
            None => (OpResult::Skipped, vec![]),
        },
        Op::Insert { rel, args } => match resolve_args(prog, m, &p.rels[*rel].column_sorts(), args) {
            Some(a) => {
                m.insert(*rel, &a);
                (OpResult::Unit, a)
            }
            None => (OpResult::Skipped, vec![]),
        },
        Op::Define { rel, args } => match resolve_args(prog, m, &p.rels[*rel].args, args) {
            Some(a) => match m.define(*rel, &a) {
                Some(id) => (OpResult::Id(id), a),
                None => (OpResult::Skipped, a),
            },
            None => (OpResult::Skipped, vec![]),
        },
        Op::Equate { sort, a, b } => match (resolve(m, *sort, *a), resolve(m, *sort, *b)) {
            (Some(x), Some(y)) => {
                m.equate(*sort, x, y);
                (OpResult::Unit, vec![x, y])
            }
            _ => (OpResult::Skipped, vec![]),
        },
        Op::Close => (budgeted_close(prog, m, None, on_poll), vec![]),
        Op::CloseUntil { stop_at } => (budgeted_close(prog, m, Some(*stop_at), on_poll), vec![]),
    }
}

/// Panic payload -> text
pub fn panic_message(p: &Box<dyn std::any::Any + Send>) -> String {
    if let Some(s) = p.downcast_ref::<&str>() {
        s.to_string()
    } else if let Some(s) = p.downcast_ref::<String>() {
        s.clone()
    } else {
        "non-string panic payload".to_string()
    }
}
