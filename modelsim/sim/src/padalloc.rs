//! A perturbing global allocator for the cross-process half of C20: every allocation is padded
//! by a per-process number of bytes (VERIF_ALLOC_PAD), which moves every heap address and changes
//! the relative layout of objects. Behaviour must not depend on it.

use std::alloc::{GlobalAlloc, Layout, System};
use std::sync::atomic::{AtomicUsize, Ordering};

pub struct PadAlloc;

static PAD: AtomicUsize = AtomicUsize::new(0);

pub fn set_pad(n: usize) {
    PAD.store(n & 0xff, Ordering::SeqCst);
}

unsafe impl GlobalAlloc for PadAlloc {
    unsafe fn alloc(&self, l: Layout) -> *mut u8 {
        let pad = PAD.load(Ordering::Relaxed);
        System.alloc(Layout::from_size_align_unchecked(l.size() + pad, l.align()))
    }
    unsafe fn dealloc(&self, p: *mut u8, l: Layout) {
        // the system allocator (malloc / free) does not need the exact size back
        System.dealloc(p, l)
    }
    unsafe fn realloc(&self, p: *mut u8, l: Layout, new_size: usize) -> *mut u8 {
        let pad = PAD.load(Ordering::Relaxed);
        System.realloc(p, l, new_size + pad)
    }
}
