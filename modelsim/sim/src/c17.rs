//! C17 (member relations are inherited along morphisms like ordinary facts) and the model-level
//! half of C18 (morphism_toposort on the tables a real close loop produces).

use crate::core::*;
use crate::hist_props::RunInfo;
use crate::monitors::check_c01;
use crate::Fail;
use lang::structure::{chase, ChaseError, Structure};
use mdrv::DynModel;
use simcore::{Json, Rng};
use std::cell::RefCell;
use std::collections::{BTreeMap, BTreeSet};

/// Seeded history for a model program: objects, carriers and morphisms are created first (so ids
/// are known), then dom / cod / constants / facts are asserted in a seeded order with closes in
/// between. The morphism graph is acyclic by construction (edges go from lower to higher object).
pub fn gen_history(prog: &Prog, rng: &mut Rng) -> Vec<Op> {
    let p = &prog.program;
    let mi = prog.model.as_ref().expect("model program");
    let n_obj = rng.range(2, 5) as u32;
    let n_mor = rng.range(1, 4) as u32;
    let mut ops = Vec::new();
    for _ in 0..n_obj {
        ops.push(Op::NewEl { sort: mi.model_sort });
    }
    let mut n_car = Vec::new();
    for s in 0..p.sorts.len() {
        if s != mi.model_sort && s != mi.mor_sort {
            let n = rng.range(2, 4) as u32;
            n_car.push((s, n));
            for _ in 0..n {
                ops.push(Op::NewEl { sort: s });
            }
        }
    }
    let extra_mor = if mi.constants.is_empty() { 0 } else { 1 };
    for _ in 0..n_mor + extra_mor {
        ops.push(Op::NewEl { sort: mi.mor_sort });
    }
    let mut rest: Vec<Op> = Vec::new();
    // morphisms: dom and cod are separate assertions (they may land in different rounds)
    for f in 0..n_mor {
        let a = rng.below(n_obj as u64 - 1) as u32;
        let b = rng.range(a as u64 + 1, n_obj as u64 - 1) as u32;
        if rng.chance(9, 10) {
            rest.push(Op::Insert { rel: mi.dom_rel, args: vec![f, a] });
        }
        if rng.chance(9, 10) {
            rest.push(Op::Insert { rel: mi.cod_rel, args: vec![f, b] });
        }
    }
    if !mi.constants.is_empty() && rng.chance(4, 5) {
        // named objects and a named morphism whose dom / cod are derived by the theory's rules
        let a = rng.below(n_obj as u64 - 1) as u32;
        let b = rng.range(a as u64 + 1, n_obj as u64 - 1) as u32;
        rest.push(Op::Insert { rel: mi.constants[0], args: vec![a] });
        rest.push(Op::Insert { rel: mi.constants[1], args: vec![b] });
        rest.push(Op::Insert { rel: mi.constants[2], args: vec![n_mor] });
    }
    // facts
    let n_facts = rng.range(1, 8);
    for _ in 0..n_facts {
        let rels: Vec<usize> = (0..p.rels.len())
            .filter(|r| p.rels[*r].kind == lang::RelKind::Pred)
            .collect();
        let r = *rng.pick(&rels);
        let args: Vec<u32> = p.rels[r]
            .args
            .iter()
            .map(|s| {
                if *s == mi.model_sort {
                    rng.below(n_obj as u64) as u32
                } else {
                    let n = n_car.iter().find(|(cs, _)| cs == s).map(|(_, n)| *n).unwrap_or(1);
                    rng.below(n as u64) as u32
                }
            })
            .collect();
        rest.push(Op::Insert { rel: r, args });
    }
    if rng.chance(1, 4) {
        let (s, n) = *rng.pick(&n_car);
        rest.push(Op::Equate { sort: s, a: rng.below(n as u64) as u32, b: rng.below(n as u64) as u32 });
    }
    // arrival order: structure first / facts first / mixed
    match rng.below(3) {
        0 => {}
        1 => rest.reverse(),
        _ => rng.shuffle(&mut rest),
    }
    let close_rate = *rng.pick(&[0u64, 15, 35]);
    for o in rest {
        ops.push(o);
        if rng.below(100) < close_rate {
            if rng.chance(1, 5) {
                ops.push(Op::CloseUntil { stop_at: rng.below(3) as u32 });
            } else {
                ops.push(Op::Close);
            }
        }
    }
    ops.push(Op::Close);
    ops
}

/// Does the history let structure (dom / cod, or the constants they are derived from) arrive
/// after a member fact has had a chance to age? That is the shape the known finding needs.
pub fn late_structure(prog: &Prog, ops: &[Op]) -> bool {
    let mi = prog.model.as_ref().unwrap();
    // dom / cod derived by rules arrive one iteration after everything asserted with them
    let constants_used = ops.iter().any(|o| matches!(o, Op::Insert { rel, .. } if mi.constants.contains(rel)));
    if constants_used {
        return true;
    }
    let mut fact_seen = false;
    let mut aged = false;
    for o in ops {
        match o {
            Op::Insert { rel, .. } if *rel == mi.dom_rel || *rel == mi.cod_rel => {
                if aged {
                    return true;
                }
            }
            // any fact may lead to member tuples (asserted directly or derived by a rule)
            Op::Insert { .. } => fact_seen = true,
            Op::Close | Op::CloseUntil { .. } => {
                if fact_seen {
                    aged = true;
                }
            }
            _ => {}
        }
    }
    false
}

fn toposort_reference(prog: &Prog, m: &dyn DynModel) -> (BTreeSet<(u32, u32, u32)>, bool) {
    let mi = prog.model.as_ref().unwrap();
    let dom: BTreeMap<u32, u32> = m.iter_rel(mi.dom_rel).unwrap_or_default().into_iter().map(|t| (t[0], t[1])).collect();
    let cod: BTreeMap<u32, u32> = m.iter_rel(mi.cod_rel).unwrap_or_default().into_iter().map(|t| (t[0], t[1])).collect();
    let mut full = BTreeSet::new();
    let mut succ: BTreeMap<u32, Vec<u32>> = BTreeMap::new();
    for (f, d) in &dom {
        if let Some(c) = cod.get(f) {
            full.insert((*f, *d, *c));
            succ.entry(*d).or_default().push(*c);
        }
    }
    fn visit(n: u32, succ: &BTreeMap<u32, Vec<u32>>, colour: &mut BTreeMap<u32, u8>) -> bool {
        match colour.get(&n).copied().unwrap_or(0) {
            1 => return true,
            2 => return false,
            _ => {}
        }
        colour.insert(n, 1);
        if let Some(ss) = succ.get(&n) {
            for s in ss {
                if visit(*s, succ, colour) {
                    return true;
                }
            }
        }
        colour.insert(n, 2);
        false
    }
    let mut colour = BTreeMap::new();
    let nodes: Vec<u32> = succ.keys().copied().collect();
    let cyclic = nodes.into_iter().any(|n| visit(n, &succ, &mut colour));
    (full, cyclic)
}

/// C18 (a): the toposort of the model's actual tables against the graph read through the public
/// iterators. Only meaningful where the tables are canonical (at polls and after closes).
pub fn check_toposort(prog: &Prog, m: &dyn DynModel) -> Result<usize, Fail> {
    let res = match m.priv_toposort() {
        Some(r) => r,
        None => return Ok(0),
    };
    let (full, cyclic) = toposort_reference(prog, m);
    match res {
        Err(()) => {
            if !cyclic {
                return Err(("spurious-cycle".into(), format!("cycle reported but the morphisms {full:?} are acyclic")));
            }
        }
        Ok(order) => {
            if cyclic {
                return Err(("missed-cycle".into(), "Ok returned although the morphisms contain a directed cycle".into()));
            }
            let set: BTreeSet<(u32, u32, u32)> = order.iter().copied().collect();
            if set != full || order.len() != full.len() {
                return Err(("wrong-morphisms".into(), format!("returned {order:?}, expected exactly (each once) {full:?}")));
            }
            for (i, (m1, d1, _)) in order.iter().enumerate() {
                for (m2, _, c2) in order.iter().skip(i + 1) {
                    if c2 == d1 {
                        return Err((
                            "not-topological".into(),
                            format!("morphism {m2} into object {c2} comes after morphism {m1} out of it: {order:?}"),
                        ));
                    }
                }
            }
        }
    }
    Ok(full.len())
}

pub fn run_c17(prog: &Prog, ops: &[Op], want_c18: bool) -> Result<RunInfo, Fail> {
    let p = &prog.program;
    let mut info = RunInfo::default();
    let suffix = if late_structure(prog, ops) { "late-structure" } else { "early-structure" };
    let tag = |(c, m): Fail| -> Fail {
        if c == "harness" || c == "panic" {
            (c, m)
        } else {
            (format!("{c}/{suffix}"), m)
        }
    };
    // (1) the history as scheduled
    // the property speaks about the state after close(): a history always ends with one
    let mut ops_v: Vec<Op> = ops.to_vec();
    if !matches!(ops_v.last(), Some(Op::Close)) {
        ops_v.push(Op::Close);
    }
    let ops: &[Op] = &ops_v;
    let mut m = (prog.new)();
    let mut asserted = Structure::new(p);
    let topo_fail: RefCell<Option<Fail>> = RefCell::new(None);
    let topo_checked: RefCell<u64> = RefCell::new(0);
    for (i, op) in ops.iter().enumerate() {
        info.steps += 1;
        let on_poll = |v: &dyn DynModel, k: u32| {
            if want_c18 && topo_fail.borrow().is_none() {
                match check_toposort(prog, v) {
                    Ok(n) => *topo_checked.borrow_mut() += (n > 0) as u64,
                    Err((c, msg)) => *topo_fail.borrow_mut() = Some((c, format!("op {i} at poll {k}: {msg}"))),
                }
            }
        };
        let (res, args) = apply_op(prog, m.as_mut(), op, &on_poll);
        if let Some(f) = topo_fail.borrow_mut().take() {
            return Err(f);
        }
        match (op, &res) {
            (Op::NewEl { sort }, OpResult::Id(id)) => {
                let r = asserted.new_el(*sort);
                if r != *id {
                    return Err(("harness".into(), "ids of the real model and of the reference diverge".into()));
                }
            }
            (Op::Insert { rel, .. }, OpResult::Unit) => {
                asserted.insert(*rel, &args);
            }
            (Op::Equate { sort, .. }, OpResult::Unit) => {
                asserted.equate(*sort, args[0], args[1]);
                info.merges_between_closes += 1;
            }
            (_, OpResult::Closed { polls, budget_hit, ret }) => {
                info.polls += *polls as u64;
                info.max_polls_in_close = info.max_polls_in_close.max(*polls);
                if *budget_hit {
                    info.budget_hit = true;
                    return Ok(info);
                }
                if *ret {
                    info.closes_cancelled += 1;
                } else {
                    info.closes_completed += 1;
                }
            }
            _ => {}
        }
    }
    info.enum_elements_checked = *topo_checked.borrow();
    if want_c18 {
        // C18 is judged on its own; the C17 oracles below are not its business
        info.final_fingerprint = dump(prog, m.as_ref()).hash();
        info.checks = *topo_checked.borrow();
        return Ok(info);
    }
    let real = dump(prog, m.as_ref());
    let real_st = real.to_structure(p);
    // (2) rules treat inherited tuples like asserted ones: the closed model satisfies every rule
    // (the implicit inheritance rules included)
    check_c01(prog, m.as_ref()).map_err(tag)?;
    info.checks += 1;
    // (3) exactly the inherited closure: reference chase over the asserted facts
    let mut reference = asserted.clone();
    match chase(p, &prog.paths, &mut reference, 150, 60) {
        Ok(_) => {}
        Err(ChaseError::Diverged) => {
            info.budget_hit = true;
            return Ok(info);
        }
        Err(ChaseError::Uninterpretable(e)) => return Err(("harness".into(), format!("reference cannot interpret the program: {e}"))),
    }
    let mut seeds = Vec::new();
    for s in 0..p.sorts.len() {
        for x in 0..real.n_ids[s] as u32 {
            seeds.push((s, x, x));
        }
    }
    check_iso(p, &real_st, &reference, &seeds, "the closed model", "the reference chase with inheritance").map_err(tag)?;
    info.checks += 1;
    // (4) independent of when the morphisms arrived: everything asserted at once, one close
    let mut one = (prog.new)();
    for op in ops.iter().filter(|o| !matches!(o, Op::Close | Op::CloseUntil { .. })) {
        apply_op(prog, one.as_mut(), op, &|_, _| {});
    }
    if let OpResult::Closed { budget_hit: true, .. } = budgeted_close(prog, one.as_mut(), None, &|_, _| {}) {
        info.budget_hit = true;
        return Ok(info);
    }
    let one_st = dump(prog, one.as_ref()).to_structure(p);
    check_iso(p, &real_st, &one_st, &seeds, "the model built by this history", "the model built in one shot")
        .map_err(|(c, m)| (format!("schedule-dependence/{c}"), m))
        .map_err(tag)?;
    info.checks += 1;
    info.final_fingerprint = real.hash();
    Ok(info)
}

pub fn case(prop: &str, prog: &Prog, ops: &[Op]) -> Json {
    let mut c = crate::history_case(prop, prog, ops, 0);
    c.set("late_structure", Json::Bool(late_structure(prog, ops)));
    c
}
