//! C17 (member relations are inherited along morphisms like ordinary facts) and the model-level
//! half of C18 (morphism_toposort on the tables a real close loop produces).

use crate::core::*;
use crate::hist_props::RunInfo;
use crate::monitors::check_c01;
use crate::Fail;
use lang::structure::{chase, ChaseError, Structure};
use mdrv::DynModel;
use simcore::{Json, Rng};
use std::cell::RefCell;
use std::collections::{BTreeMap, BTreeSet};

/// Seeded history for a model program: objects, carriers and morphisms are created first (so ids
/// are known), then dom / cod / constants / facts are asserted in a seeded order with closes in
/// between. The morphism graph is acyclic by construction (edges go from lower to higher object).
pub fn gen_history(prog: &Prog, rng: &mut Rng) -> Vec<Op> {
    let p = &prog.program;
    let mi = prog.model.as_ref().expect("model program");
    if !mi.member_sorts.is_empty() {
        return gen_history_member(prog, rng);
    }
    let n_obj = rng.range(2, 5) as u32;
    let n_mor = rng.range(1, 4) as u32;
    let mut ops = Vec::new();
    for _ in 0..n_obj {
        ops.push(Op::NewEl { sort: mi.model_sort });
    }
    let mut n_car = Vec::new();
    for s in 0..p.sorts.len() {
        if s != mi.model_sort && s != mi.mor_sort {
            let n = rng.range(2, 4) as u32;
            n_car.push((s, n));
            for _ in 0..n {
                ops.push(Op::NewEl { sort: s });
            }
        }
    }
    let extra_mor = if mi.constants.is_empty() { 0 } else { 1 };
    for _ in 0..n_mor + extra_mor {
        ops.push(Op::NewEl { sort: mi.mor_sort });
    }
    let mut rest: Vec<Op> = Vec::new();
    // morphisms: dom and cod are separate assertions (they may land in different rounds)
    for f in 0..n_mor {
        let a = rng.below(n_obj as u64 - 1) as u32;
        let b = rng.range(a as u64 + 1, n_obj as u64 - 1) as u32;
        if rng.chance(9, 10) {
            rest.push(Op::Insert { rel: mi.dom_rel, args: vec![f, a] });
        }
        if rng.chance(9, 10) {
            rest.push(Op::Insert { rel: mi.cod_rel, args: vec![f, b] });
        }
    }
    if !mi.constants.is_empty() && rng.chance(4, 5) {
        // named objects and a named morphism whose dom / cod are derived by the theory's rules
        let a = rng.below(n_obj as u64 - 1) as u32;
        let b = rng.range(a as u64 + 1, n_obj as u64 - 1) as u32;
        rest.push(Op::Insert { rel: mi.constants[0], args: vec![a] });
        rest.push(Op::Insert { rel: mi.constants[1], args: vec![b] });
        rest.push(Op::Insert { rel: mi.constants[2], args: vec![n_mor] });
    }
    // facts
    let n_facts = rng.range(1, 8);
    for _ in 0..n_facts {
        let rels: Vec<usize> = (0..p.rels.len())
            .filter(|r| p.rels[*r].kind == lang::RelKind::Pred)
            .collect();
        let r = *rng.pick(&rels);
        let args: Vec<u32> = p.rels[r]
            .args
            .iter()
            .map(|s| {
                if *s == mi.model_sort {
                    rng.below(n_obj as u64) as u32
                } else {
                    let n = n_car.iter().find(|(cs, _)| cs == s).map(|(_, n)| *n).unwrap_or(1);
                    rng.below(n as u64) as u32
                }
            })
            .collect();
        rest.push(Op::Insert { rel: r, args });
    }
    if rng.chance(1, 4) {
        let (s, n) = *rng.pick(&n_car);
        rest.push(Op::Equate { sort: s, a: rng.below(n as u64) as u32, b: rng.below(n as u64) as u32 });
    }
    // arrival order: structure first / facts first / mixed
    match rng.below(3) {
        0 => {}
        1 => rest.reverse(),
        _ => rng.shuffle(&mut rest),
    }
    let close_rate = *rng.pick(&[0u64, 15, 35]);
    for o in rest {
        ops.push(o);
        if rng.below(100) < close_rate {
            if rng.chance(1, 5) {
                ops.push(Op::CloseUntil { stop_at: rng.below(3) as u32 });
            } else {
                ops.push(Op::Close);
            }
        }
    }
    ops.push(Op::Close);
    ops
}

/// Would identifying the objects `x` and `y` close a directed cycle in the graph with the given
/// edges? (classes: union-find over objects; a cycle makes close() panic by design)
fn merge_closes_cycle(n: usize, uf: &[usize], edges: &[(u32, u32)], x: usize, y: usize) -> bool {
    fn find(uf: &[usize], mut a: usize) -> usize {
        while uf[a] != a {
            a = uf[a];
        }
        a
    }
    let (rx, ry) = (find(uf, x), find(uf, y));
    if rx == ry {
        return false;
    }
    // contracted graph after the merge
    let cls = |a: usize| {
        let r = find(uf, a);
        if r == ry {
            rx
        } else {
            r
        }
    };
    let mut succ: Vec<Vec<usize>> = vec![Vec::new(); n];
    for (a, b) in edges {
        let (ca, cb) = (cls(*a as usize), cls(*b as usize));
        if ca == cb {
            return true;
        }
        succ[ca].push(cb);
    }
    // DFS cycle detection
    let mut colour = vec![0u8; n];
    fn visit(v: usize, succ: &[Vec<usize>], colour: &mut [u8]) -> bool {
        match colour[v] {
            1 => return true,
            2 => return false,
            _ => {}
        }
        colour[v] = 1;
        for w in &succ[v] {
            if visit(*w, succ, colour) {
                return true;
            }
        }
        colour[v] = 2;
        false
    }
    (0..n).any(|v| visit(v, &succ, &mut colour))
}

/// Seeded history for a program whose model has a member type: objects with their own elements,
/// morphisms with (partial, not necessarily injective) application graphs asserted through the
/// API, member facts over the elements of an object, equalities between elements, carriers and
/// (where no cycle can arise) objects.
pub fn gen_history_member(prog: &Prog, rng: &mut Rng) -> Vec<Op> {
    let p = &prog.program;
    let mi = prog.model.as_ref().expect("model program");
    let (el, mem_rel, app_rel) = mi.member_sorts[0];
    let n_obj = rng.range(2, 4) as u32;
    let n_mor = rng.range(1, 4) as u32;
    let mut ops = Vec::new();
    for _ in 0..n_obj {
        ops.push(Op::NewEl { sort: mi.model_sort });
    }
    let mut n_car = Vec::new();
    for s in 0..p.sorts.len() {
        if s != mi.model_sort && s != mi.mor_sort && s != el {
            let n = rng.range(2, 3) as u32;
            n_car.push((s, n));
            for _ in 0..n {
                ops.push(Op::NewEl { sort: s });
            }
        }
    }
    for _ in 0..n_mor {
        ops.push(Op::NewEl { sort: mi.mor_sort });
    }
    // elements of each object (ids are handed out in this order)
    let mut members: Vec<Vec<u32>> = vec![Vec::new(); n_obj as usize];
    let mut n_el = 0u32;
    for o in 0..n_obj {
        let k = if rng.chance(1, 8) { 0 } else { rng.range(1, 3) };
        for _ in 0..k {
            ops.push(Op::NewMember { sort: el, parent: o });
            members[o as usize].push(n_el);
            n_el += 1;
        }
    }
    if n_el == 0 {
        ops.push(Op::NewMember { sort: el, parent: 0 });
        members[0].push(0);
        n_el = 1;
    }
    let mut rest: Vec<Op> = Vec::new();
    let mut edges: Vec<(u32, u32)> = Vec::new();
    for f in 0..n_mor {
        let a = rng.below(n_obj as u64 - 1) as u32;
        let b = rng.range(a as u64 + 1, n_obj as u64 - 1) as u32;
        edges.push((a, b));
        if rng.chance(9, 10) {
            rest.push(Op::Insert { rel: mi.dom_rel, args: vec![f, a] });
        }
        if rng.chance(9, 10) {
            rest.push(Op::Insert { rel: mi.cod_rel, args: vec![f, b] });
        }
        // the application graph of f: partial, images drawn with repetition
        for x in &members[a as usize] {
            if rng.chance(5, 6) && !members[b as usize].is_empty() {
                let y = *rng.pick(&members[b as usize]);
                rest.push(Op::Insert { rel: app_rel, args: vec![f, *x, y] });
            }
        }
    }
    let any_el = |rng: &mut Rng| rng.below(n_el as u64) as u32;
    let n_facts = rng.range(2, 9);
    let fact_rels: Vec<usize> = (0..p.rels.len())
        .filter(|r| *r != mi.dom_rel && *r != mi.cod_rel && *r != app_rel && *r != mem_rel)
        .collect();
    for _ in 0..n_facts {
        let r = *rng.pick(&fact_rels);
        let rel = &p.rels[r];
        let cols = rel.column_sorts();
        let o = rng.below(n_obj as u64) as u32;
        let args: Vec<u32> = cols
            .iter()
            .map(|s| {
                if *s == mi.model_sort {
                    o
                } else if *s == el {
                    if !members[o as usize].is_empty() && rng.chance(9, 10) {
                        *rng.pick(&members[o as usize])
                    } else {
                        any_el(rng)
                    }
                } else {
                    let n = n_car.iter().find(|(cs, _)| cs == s).map(|(_, n)| *n).unwrap_or(1);
                    rng.below(n as u64) as u32
                }
            })
            .collect();
        rest.push(Op::Insert { rel: r, args });
    }
    if rng.chance(1, 3) {
        // two elements of one object (or, rarely, of different objects) are identified
        let o = rng.below(n_obj as u64) as usize;
        let (a, b) = if members[o].len() >= 2 && rng.chance(4, 5) {
            (*rng.pick(&members[o]), *rng.pick(&members[o]))
        } else {
            (any_el(rng), any_el(rng))
        };
        rest.push(Op::Equate { sort: el, a, b });
    }
    if rng.chance(1, 5) {
        let (s, n) = *rng.pick(&n_car);
        rest.push(Op::Equate { sort: s, a: rng.below(n as u64) as u32, b: rng.below(n as u64) as u32 });
    }
    if rng.chance(1, 5) {
        let uf: Vec<usize> = (0..n_obj as usize).collect();
        let x = rng.below(n_obj as u64) as usize;
        let y = rng.below(n_obj as u64) as usize;
        if !merge_closes_cycle(n_obj as usize, &uf, &edges, x, y) {
            rest.push(Op::Equate { sort: mi.model_sort, a: x as u32, b: y as u32 });
        }
    }
    match rng.below(4) {
        0 | 1 => {}
        2 => rest.reverse(),
        _ => rng.shuffle(&mut rest),
    }
    let close_rate = *rng.pick(&[0u64, 15, 35]);
    for o in rest {
        ops.push(o);
        if rng.below(100) < close_rate {
            if rng.chance(1, 5) {
                ops.push(Op::CloseUntil { stop_at: rng.below(3) as u32 });
            } else {
                ops.push(Op::Close);
            }
        }
    }
    ops.push(Op::Close);
    ops
}

/// C18 through the model: adds one morphism that closes a directed cycle (a back edge along an
/// existing morphism, or a self-loop). close() must then panic with the runtime's cycle report,
/// and must not panic otherwise.
pub fn inject_cycle(prog: &Prog, ops: &mut Vec<Op>, rng: &mut Rng) -> bool {
    let mi = prog.model.as_ref().expect("model program");
    let n_mor = ops.iter().filter(|o| matches!(o, Op::NewEl { sort } if *sort == mi.mor_sort)).count() as u32;
    // morphisms with both ends asserted
    let mut ends: BTreeMap<u32, (Option<u32>, Option<u32>)> = BTreeMap::new();
    for o in ops.iter() {
        if let Op::Insert { rel, args } = o {
            if *rel == mi.dom_rel {
                ends.entry(args[0]).or_default().0 = Some(args[1]);
            } else if *rel == mi.cod_rel {
                ends.entry(args[0]).or_default().1 = Some(args[1]);
            }
        }
    }
    let full: Vec<(u32, u32)> = ends.values().filter_map(|(d, c)| Some(((*d)?, (*c)?))).collect();
    if full.is_empty() || n_mor == 0 {
        return false;
    }
    let (a, b) = *rng.pick(&full);
    let (from, to) = if rng.chance(1, 4) { (a, a) } else { (b, a) };
    // the new morphism is created right after the last creation op, so that every id stays what it was
    let last_new = ops.iter().rposition(|o| matches!(o, Op::NewEl { .. } | Op::NewMember { .. })).unwrap_or(0);
    ops.insert(last_new + 1, Op::NewEl { sort: mi.mor_sort });
    let lo = last_new + 2;
    let hi = ops.len() - 1; // before the final close
    let p1 = rng.range(lo as u64, hi as u64) as usize;
    ops.insert(p1, Op::Insert { rel: mi.dom_rel, args: vec![n_mor, from] });
    let p2 = rng.range(lo as u64, (hi + 1) as u64) as usize;
    ops.insert(p2, Op::Insert { rel: mi.cod_rel, args: vec![n_mor, to] });
    true
}

/// Directed cycle among the morphisms with both ends defined, read from a (canonical) structure.
fn structure_has_cycle(prog: &Prog, st: &Structure) -> bool {
    let mi = prog.model.as_ref().unwrap();
    let dom: BTreeMap<u32, u32> = st.tables[mi.dom_rel].iter().map(|t| st.canon_tuple(mi.dom_rel, t)).map(|t| (t[0], t[1])).collect();
    let cod: BTreeMap<u32, u32> = st.tables[mi.cod_rel].iter().map(|t| st.canon_tuple(mi.cod_rel, t)).map(|t| (t[0], t[1])).collect();
    let mut succ: BTreeMap<u32, Vec<u32>> = BTreeMap::new();
    for (f, d) in &dom {
        if let Some(c) = cod.get(f) {
            succ.entry(*d).or_default().push(*c);
        }
    }
    fn visit(n: u32, succ: &BTreeMap<u32, Vec<u32>>, colour: &mut BTreeMap<u32, u8>) -> bool {
        match colour.get(&n).copied().unwrap_or(0) {
            1 => return true,
            2 => return false,
            _ => {}
        }
        colour.insert(n, 1);
        if let Some(ss) = succ.get(&n) {
            for s in ss {
                if visit(*s, succ, colour) {
                    return true;
                }
            }
        }
        colour.insert(n, 2);
        false
    }
    let mut colour = BTreeMap::new();
    let nodes: Vec<u32> = succ.keys().copied().collect();
    nodes.into_iter().any(|n| visit(n, &succ, &mut colour))
}

/// Does the history let structure (dom / cod, or the constants they are derived from) arrive
/// after a member fact has had a chance to age? That is the shape the known finding needs.
pub fn late_structure(prog: &Prog, ops: &[Op]) -> bool {
    let mi = prog.model.as_ref().unwrap();
    // dom / cod derived by rules arrive one iteration after everything asserted with them
    let constants_used = ops.iter().any(|o| matches!(o, Op::Insert { rel, .. } if mi.constants.contains(rel)));
    if constants_used {
        return true;
    }
    let mut fact_seen = false;
    let mut aged = false;
    let app_rels: Vec<usize> = mi.member_sorts.iter().map(|(_, _, a)| *a).collect();
    let structural_sorts: Vec<usize> = [mi.model_sort, mi.mor_sort].into_iter().chain(mi.member_sorts.iter().map(|(s, _, _)| *s)).collect();
    for o in ops {
        match o {
            Op::Insert { rel, .. } if *rel == mi.dom_rel || *rel == mi.cod_rel || app_rels.contains(rel) => {
                if aged {
                    return true;
                }
            }
            // identifying objects, morphisms or member elements rewrites dom / cod / application
            // rows: new structure over facts that may already be old
            Op::Equate { sort, .. } if structural_sorts.contains(sort) => {
                if aged {
                    return true;
                }
            }
            // any fact may lead to member tuples (asserted directly or derived by a rule)
            Op::Insert { .. } => fact_seen = true,
            Op::Close | Op::CloseUntil { .. } => {
                if fact_seen {
                    aged = true;
                }
            }
            _ => {}
        }
    }
    false
}

/// Do the redundant `_all` copies of a member relation (every column order, diagonal-restricted
/// copies) denote one and the same set of inherited tuples? Returns the kind of the first copy
/// that deviates:
///   "unmapped-order"  its column order puts a member-typed column before the model column
///                     (the generator of recompute_model_indices does not map such columns: it
///                     carries a TODO saying so),
///   "diagonal-copy"   it is a diagonal-restricted copy (it is computed from the diagonal copy of
///                     the domain, so a tuple that becomes diagonal only through a non-injective
///                     morphism never enters it),
///   "other"           anything else.
pub fn inherited_copies_deviation(prog: &Prog, m: &dyn DynModel) -> Option<&'static str> {
    use crate::monitors::{parse_field, rows_of, satisfies};
    let p = &prog.program;
    let mi = prog.model.as_ref()?;
    let member_sorts: Vec<usize> = mi.member_sorts.iter().map(|(s, _, _)| *s).collect();
    // (rel, new) -> [(kind of copy, pattern, rows)]
    let mut groups: BTreeMap<(usize, bool), Vec<(&'static str, Option<Vec<usize>>, BTreeSet<Vec<u32>>)>> = BTreeMap::new();
    for d in m.indices() {
        let base = match d.field.strip_suffix("_all") {
            Some(b) => b,
            None => continue,
        };
        let fi = parse_field(p, base)?;
        let r = fi.rel?;
        let cols = p.rels[r].column_sorts();
        let rows = match rows_of(&fi, cols.len(), &d.tuples) {
            Ok(rows) => rows,
            Err(_) => return Some("other"),
        };
        // stored columns in index order
        let reps: Vec<usize> = match &fi.eqs {
            Some(eqs) => {
                let mut v = eqs.clone();
                v.sort();
                v.dedup();
                v
            }
            None => (0..cols.len()).collect(),
        };
        let stored: Vec<usize> = fi.order.iter().filter_map(|c| reps.get(*c).copied()).collect();
        let model_pos = stored.iter().position(|c| *c == 0).unwrap_or(0);
        let member_before_model = stored[..model_pos].iter().any(|c| member_sorts.contains(&cols[*c]));
        let kind = if member_before_model {
            "unmapped-order"
        } else if fi.eqs.is_some() {
            "diagonal-copy"
        } else {
            "plain"
        };
        groups.entry((r, fi.new)).or_default().push((kind, fi.eqs.clone(), rows));
    }
    let mut worst: Option<&'static str> = None;
    for (_, copies) in groups {
        // reference: a plain copy in model-first order if there is one
        let reference = copies.iter().find(|(k, e, _)| *k == "plain" && e.is_none()).or_else(|| copies.iter().find(|(_, e, _)| e.is_none()));
        let reference = match reference {
            Some(r) => r.clone(),
            None => continue,
        };
        for (kind, eqs, rows) in &copies {
            let want: BTreeSet<Vec<u32>> = match eqs {
                Some(e) => reference.2.iter().filter(|row| satisfies(e, row)).cloned().collect(),
                None => reference.2.clone(),
            };
            if *rows != want {
                let k = if *kind == "plain" { if reference.0 == "plain" { "other" } else { reference.0 } } else { *kind };
                worst = match (worst, k) {
                    (Some("other"), _) | (_, "other") => Some("other"),
                    (Some(w), _) => Some(w),
                    (None, k) => Some(k),
                };
            }
        }
    }
    worst
}

fn toposort_reference(prog: &Prog, m: &dyn DynModel) -> (BTreeSet<(u32, u32, u32)>, bool) {
    let mi = prog.model.as_ref().unwrap();
    let dom: BTreeMap<u32, u32> = m.iter_rel(mi.dom_rel).unwrap_or_default().into_iter().map(|t| (t[0], t[1])).collect();
    let cod: BTreeMap<u32, u32> = m.iter_rel(mi.cod_rel).unwrap_or_default().into_iter().map(|t| (t[0], t[1])).collect();
    let mut full = BTreeSet::new();
    let mut succ: BTreeMap<u32, Vec<u32>> = BTreeMap::new();
    for (f, d) in &dom {
        if let Some(c) = cod.get(f) {
            full.insert((*f, *d, *c));
            succ.entry(*d).or_default().push(*c);
        }
    }
    fn visit(n: u32, succ: &BTreeMap<u32, Vec<u32>>, colour: &mut BTreeMap<u32, u8>) -> bool {
        match colour.get(&n).copied().unwrap_or(0) {
            1 => return true,
            2 => return false,
            _ => {}
        }
        colour.insert(n, 1);
        if let Some(ss) = succ.get(&n) {
            for s in ss {
                if visit(*s, succ, colour) {
                    return true;
                }
            }
        }
        colour.insert(n, 2);
        false
    }
    let mut colour = BTreeMap::new();
    let nodes: Vec<u32> = succ.keys().copied().collect();
    let cyclic = nodes.into_iter().any(|n| visit(n, &succ, &mut colour));
    (full, cyclic)
}

/// C18 (a): the toposort of the model's actual tables against the graph read through the public
/// iterators. Only meaningful where the tables are canonical (at polls and after closes).
pub fn check_toposort(prog: &Prog, m: &dyn DynModel) -> Result<usize, Fail> {
    let res = match m.priv_toposort() {
        Some(r) => r,
        None => return Ok(0),
    };
    let (full, cyclic) = toposort_reference(prog, m);
    match res {
        Err(()) => {
            if !cyclic {
                return Err(("spurious-cycle".into(), format!("cycle reported but the morphisms {full:?} are acyclic")));
            }
        }
        Ok(order) => {
            if cyclic {
                return Err(("missed-cycle".into(), "Ok returned although the morphisms contain a directed cycle".into()));
            }
            let set: BTreeSet<(u32, u32, u32)> = order.iter().copied().collect();
            if set != full || order.len() != full.len() {
                return Err(("wrong-morphisms".into(), format!("returned {order:?}, expected exactly (each once) {full:?}")));
            }
            for (i, (m1, d1, _)) in order.iter().enumerate() {
                for (m2, _, c2) in order.iter().skip(i + 1) {
                    if c2 == d1 {
                        return Err((
                            "not-topological".into(),
                            format!("morphism {m2} into object {c2} comes after morphism {m1} out of it: {order:?}"),
                        ));
                    }
                }
            }
        }
    }
    Ok(full.len())
}

pub fn run_c17(prog: &Prog, ops: &[Op], want_c18: bool) -> Result<RunInfo, Fail> {
    let p = &prog.program;
    let mut info = RunInfo::default();
    let suffix = if late_structure(prog, ops) { "late-structure" } else { "early-structure" };
    // objects, morphisms or member elements identified *during* a close (by a rule or by
    // single-valuedness): dom / cod / application rows are rewritten while facts are already old,
    // which is late structure that no assertion of the history shows
    let derived_merge = std::cell::Cell::new(false);
    let structural_classes = |v: &dyn DynModel| -> usize {
        let mi = prog.model.as_ref().unwrap();
        let mut n = v.iter_sort(mi.model_sort).len() + v.iter_sort(mi.mor_sort).len();
        for (s, _, _) in &mi.member_sorts {
            n += v.iter_sort(*s).len();
        }
        n
    };
    // set as soon as the redundant copies of an inherited relation disagree (at a poll or after a close)
    let deviation: std::cell::Cell<Option<&'static str>> = std::cell::Cell::new(None);
    let tag = |(c, m): Fail| -> Fail {
        if c == "harness" || c == "panic" {
            (c, m)
        } else {
            let suffix = if suffix == "early-structure" && derived_merge.get() { "late-structure-derived-merge" } else { suffix };
            match deviation.get() {
                Some(k) if k != "other" => (format!("{c}/{suffix}/{k}"), m),
                _ => (format!("{c}/{suffix}"), m),
            }
        }
    };
    // (1) the history as scheduled
    // the property speaks about the state after close(): a history always ends with one
    let mut ops_v: Vec<Op> = ops.to_vec();
    if !matches!(ops_v.last(), Some(Op::Close)) {
        ops_v.push(Op::Close);
    }
    let ops: &[Op] = &ops_v;
    let mut m = (prog.new)();
    let mut asserted = Structure::new(p);
    let topo_fail: RefCell<Option<Fail>> = RefCell::new(None);
    let topo_checked: RefCell<u64> = RefCell::new(0);
    for (i, op) in ops.iter().enumerate() {
        info.steps += 1;
        let on_poll = |v: &dyn DynModel, k: u32| {
            if !want_c18 && deviation.get().is_none() {
                deviation.set(inherited_copies_deviation(prog, v));
            }
            if want_c18 && topo_fail.borrow().is_none() {
                match check_toposort(prog, v) {
                    Ok(n) => *topo_checked.borrow_mut() += (n > 0) as u64,
                    Err((c, msg)) => *topo_fail.borrow_mut() = Some((c, format!("op {i} at poll {k}: {msg}"))),
                }
            }
        };
        let classes_before = structural_classes(m.as_ref());
        let (res, args) = if want_c18 && matches!(op, Op::Close | Op::CloseUntil { .. }) {
            // a cycle among the morphisms makes close() panic by design (the generated code
            // `expect`s the runtime's Ok): that is how the model reports it
            match std::panic::catch_unwind(std::panic::AssertUnwindSafe(|| apply_op(prog, m.as_mut(), op, &on_poll))) {
                Ok(x) => x,
                Err(payload) => {
                    let msg = panic_message(&payload);
                    if !msg.contains("cycle") {
                        return Err(("panic".into(), format!("the generated model panicked: {msg}")));
                    }
                    // the report is right iff the facts asserted so far, closed under the rules,
                    // contain a directed cycle of morphisms with both ends defined
                    let mut reference = asserted.clone();
                    match chase(p, &prog.paths, &mut reference, 150, 60) {
                        Ok(_) => {}
                        Err(ChaseError::Diverged) => {
                            info.budget_hit = true;
                            return Ok(info);
                        }
                        Err(ChaseError::Uninterpretable(e)) => return Err(("harness".into(), format!("reference cannot interpret the program: {e}"))),
                    }
                    if !structure_has_cycle(prog, &reference) {
                        return Err((
                            "spurious-cycle".into(),
                            format!("op {i}: close() reported a cycle ({msg}) but the morphisms of the closed reference model are acyclic"),
                        ));
                    }
                    info.checks = *topo_checked.borrow() + 1;
                    info.enum_elements_checked = *topo_checked.borrow();
                    info.c17_mapped_rows = 1; // "a cycle was reported and was real"
                    info.final_fingerprint = simcore::fnv_str(&format!("cycle-reported-at-op-{i}"));
                    return Ok(info);
                }
            }
        } else {
            apply_op(prog, m.as_mut(), op, &on_poll)
        };
        if want_c18 && matches!(op, Op::Close | Op::CloseUntil { .. }) {
            // close returned: the morphisms it just ordered cannot contain a cycle
            let (_, cyclic) = toposort_reference(prog, m.as_ref());
            if cyclic {
                return Err((
                    "missed-cycle".into(),
                    format!("op {i}: close returned although the morphisms with both ends defined contain a directed cycle"),
                ));
            }
        }
        if matches!(op, Op::Close | Op::CloseUntil { .. }) && structural_classes(m.as_ref()) < classes_before {
            derived_merge.set(true);
        }
        if let Some(f) = topo_fail.borrow_mut().take() {
            return Err(f);
        }
        match (op, &res) {
            (Op::NewEl { sort }, OpResult::Id(id)) => {
                let r = asserted.new_el(*sort);
                if r != *id {
                    return Err(("harness".into(), "ids of the real model and of the reference diverge".into()));
                }
            }
            (Op::NewMember { sort, .. }, OpResult::Id(id)) => {
                let r = asserted.new_el(*sort);
                if r != *id {
                    return Err(("harness".into(), "ids of the real model and of the reference diverge".into()));
                }
                if let lang::SortKind::Member { membership_rel, .. } = &p.sorts[*sort].kind {
                    asserted.insert(*membership_rel, &[args[0], r]);
                }
            }
            (Op::Insert { rel, .. }, OpResult::Unit) => {
                asserted.insert(*rel, &args);
            }
            (Op::Equate { sort, .. }, OpResult::Unit) => {
                asserted.equate(*sort, args[0], args[1]);
                info.merges_between_closes += 1;
            }
            (_, OpResult::Closed { polls, budget_hit, ret }) => {
                info.polls += *polls as u64;
                info.max_polls_in_close = info.max_polls_in_close.max(*polls);
                if *budget_hit {
                    info.budget_hit = true;
                    return Ok(info);
                }
                if *ret {
                    info.closes_cancelled += 1;
                } else {
                    info.closes_completed += 1;
                }
            }
            _ => {}
        }
    }
    info.enum_elements_checked = *topo_checked.borrow();
    if want_c18 {
        // C18 is judged on its own; the C17 oracles below are not its business
        info.final_fingerprint = dump(prog, m.as_ref()).hash();
        info.checks = *topo_checked.borrow();
        return Ok(info);
    }
    if deviation.get().is_none() {
        deviation.set(inherited_copies_deviation(prog, m.as_ref()));
    }
    let real = dump(prog, m.as_ref());
    let real_st = real.to_structure(p);
    if std::env::var("VERIF_DEBUG").is_ok() {
        for (r, ts) in real.rels.iter().enumerate() {
            eprintln!("real {} = {:?}", p.rels[r].name, ts);
        }
        for ix in m.indices() {
            eprintln!("index {} = {:?}", ix.field, ix.tuples);
        }
    }
    // (2) rules treat inherited tuples like asserted ones: the closed model satisfies every rule
    // (the implicit inheritance rules included)
    check_c01(prog, m.as_ref()).map_err(tag)?;
    info.checks += 1;
    // (3) exactly the inherited closure: reference chase over the asserted facts
    let mut reference = asserted.clone();
    match chase(p, &prog.paths, &mut reference, 150, 60) {
        Ok(_) => {}
        Err(ChaseError::Diverged) => {
            info.budget_hit = true;
            return Ok(info);
        }
        Err(ChaseError::Uninterpretable(e)) => return Err(("harness".into(), format!("reference cannot interpret the program: {e}"))),
    }
    let mut seeds = Vec::new();
    for s in 0..p.sorts.len() {
        for x in 0..real.n_ids[s] as u32 {
            seeds.push((s, x, x));
        }
    }
    check_iso(p, &real_st, &reference, &seeds, "the closed model", "the reference chase with inheritance").map_err(tag)?;
    info.checks += 1;
    // (4) independent of when the morphisms arrived: everything asserted at once, one close
    let mut one = (prog.new)();
    for op in ops.iter().filter(|o| !matches!(o, Op::Close | Op::CloseUntil { .. })) {
        apply_op(prog, one.as_mut(), op, &|_, _| {});
    }
    let one_poll = |v: &dyn DynModel, _k: u32| {
        if deviation.get().is_none() {
            deviation.set(inherited_copies_deviation(prog, v));
        }
    };
    let classes_before = structural_classes(one.as_ref());
    if let OpResult::Closed { budget_hit: true, .. } = budgeted_close(prog, one.as_mut(), None, &one_poll) {
        info.budget_hit = true;
        return Ok(info);
    }
    if structural_classes(one.as_ref()) < classes_before {
        derived_merge.set(true);
    }
    if deviation.get().is_none() {
        deviation.set(inherited_copies_deviation(prog, one.as_ref()));
    }
    let one_st = dump(prog, one.as_ref()).to_structure(p);
    check_iso(p, &real_st, &one_st, &seeds, "the model built by this history", "the model built in one shot")
        .map_err(|(c, m)| (format!("schedule-dependence/{c}"), m))
        .map_err(tag)?;
    info.checks += 1;
    info.final_fingerprint = real.hash();
    info.c17_masked = suffix != "early-structure" || derived_merge.get() || deviation.get().is_some();
    if let Some(mi) = &prog.model {
        if !mi.member_sorts.is_empty() {
            // rows of member relations beyond the asserted ones in models that are the codomain of
            // some morphism: what inheritance (with images) and the rules added
            for r in &mi.member_rels {
                let asserted_rows = asserted.tables[*r].len();
                info.c17_mapped_rows += real.rels[*r].len().saturating_sub(asserted_rows) as u64;
            }
        }
    }
    Ok(info)
}

pub fn case(prop: &str, prog: &Prog, ops: &[Op]) -> Json {
    let mut c = crate::history_case(prop, prog, ops, 0);
    c.set("late_structure", Json::Bool(late_structure(prog, ops)));
    c
}
