//! The uniform dynamic interface every generated driver implements. The simulator talks to a
//! generated model only through this trait; relation / sort indices are those of the lang AST.

pub type Tuple = Vec<u32>;

/// One private index field of the model struct, as named in the emitted code.
#[derive(Clone, Debug)]
pub struct IndexDump {
    pub field: String,
    pub tuples: Vec<Tuple>,
}

pub trait DynModel {
    // ---- public generated API
    fn new_el(&mut self, sort: usize) -> u32;
    /// `new_<member type>(parent)` of theories whose model declaration has a member type
    fn new_member(&mut self, sort: usize, parent: u32) -> u32;
    fn new_enum(&mut self, ctor: usize, args: &[u32]) -> u32;
    fn insert(&mut self, rel: usize, t: &[u32]);
    /// None when the generated API has no define_ function for this relation
    fn define(&mut self, rel: usize, args: &[u32]) -> Option<u32>;
    fn equate(&mut self, sort: usize, a: u32, b: u32);
    fn close(&mut self);
    fn close_until(&mut self, cond: &dyn Fn(&dyn DynModel) -> bool) -> bool;
    fn holds(&self, rel: usize, t: &[u32]) -> bool;
    fn eval(&self, rel: usize, args: &[u32]) -> Option<u32>;
    fn are_equal(&self, sort: usize, a: u32, b: u32) -> bool;
    fn root(&self, sort: usize, a: u32) -> u32;
    fn iter_sort(&self, sort: usize) -> Vec<u32>;
    /// None for relations without a public iterator (nullary predicates)
    fn iter_rel(&self, rel: usize) -> Option<Vec<Tuple>>;
    fn enum_cases(&self, sort: usize, el: u32) -> Vec<(usize, Tuple)>;
    /// may panic (that is what C15 watches)
    fn enum_case(&self, sort: usize, el: u32) -> (usize, Tuple);

    // ---- private state (the driver is textually included next to the generated code)
    fn indices(&self) -> Vec<IndexDump>;
    /// (field name, [(element, rows listed for it)])
    fn element_indices(&self) -> Vec<(String, Vec<(u32, Vec<Tuple>)>)>;
    /// per sort: the uprooted list
    fn uprooted(&self) -> Vec<Vec<u32>>;
    fn n_ids(&self, sort: usize) -> usize;
    fn priv_is_dirty(&self) -> bool;
    fn priv_move_new_to_old(&mut self);
    fn priv_canonicalize(&mut self);
    /// runs the rule functions of one iteration, one rule group at a time, and returns what each
    /// pushed into the delta vectors: (rule group, delta field, rows)
    fn priv_run_rules(&mut self) -> Vec<(String, String, Vec<Tuple>)>;
    /// theories with a model declaration: eqlog_runtime::morphism_toposort on the model's current
    /// six dom / cod / object tables, as (morph, dom, cod) triples; None for other theories
    fn priv_toposort(&self) -> Option<Result<Vec<(u32, u32, u32)>, ()>>;
}

pub struct Entry {
    pub name: &'static str,
    pub source: &'static str,
    /// how the simulator reconstructs the AST: "gen:<seed>:<index>" or "parse"
    pub origin: &'static str,
    pub new: fn() -> Box<dyn DynModel>,
}
