//! Own AST of the eqlog fragment the simulator generates and interprets.

#[derive(Clone, Debug, PartialEq)]
pub enum SortKind {
    Plain,
    /// constructor relation indices
    Enum(Vec<usize>),
    /// member type of a model (flat view: an ordinary sort whose elements each belong to one
    /// model element through the membership relation; created by `new_<t>(parent)`)
    Member { model_sort: usize, membership_rel: usize },
}

#[derive(Clone, Debug, PartialEq)]
pub struct Sort {
    /// UpperCamelCase, purely alphabetic
    pub name: String,
    pub kind: SortKind,
}

#[derive(Clone, Debug, PartialEq)]
pub enum RelKind {
    Pred,
    Func,
    /// constructor of the enum sort with this index (a function into it)
    Ctor(usize),
}

#[derive(Clone, Debug, PartialEq)]
pub struct Rel {
    /// preds/funcs: lower_snake; constructors: UpperCamel
    pub name: String,
    pub kind: RelKind,
    /// argument sorts; for functions and constructors the result sort is `result`
    pub args: Vec<usize>,
    pub result: Option<usize>,
}

impl Rel {
    /// number of columns of the relation's table (function graphs carry the result last)
    pub fn arity(&self) -> usize {
        self.args.len() + if self.result.is_some() { 1 } else { 0 }
    }
    pub fn column_sorts(&self) -> Vec<usize> {
        let mut v = self.args.clone();
        if let Some(r) = self.result {
            v.push(r);
        }
        v
    }
    pub fn is_func(&self) -> bool {
        self.result.is_some()
    }
}

#[derive(Clone, Debug, PartialEq)]
pub enum Term {
    Var(String),
    Wild,
    App(usize, Vec<Term>),
}

#[derive(Clone, Debug, PartialEq)]
pub enum Atom {
    Pred(usize, Vec<Term>),
    Eq(Term, Term),
    Defined(Term),
    /// `v := t!` (then only)
    DefinedAs(String, Term),
    /// `x: Sort` (if only)
    SortOf(String, usize),
}

#[derive(Clone, Debug, PartialEq)]
pub struct MatchCase {
    pub ctor: usize,
    pub vars: Vec<Term>, // Var or Wild
    pub body: Vec<Stmt>,
}

#[derive(Clone, Debug, PartialEq)]
pub enum Stmt {
    If(Atom),
    Then(Atom),
    Branch(Vec<Vec<Stmt>>),
    Match(Term, Vec<MatchCase>),
}

#[derive(Clone, Debug, PartialEq)]
pub struct Rule {
    pub name: Option<String>,
    pub stmts: Vec<Stmt>,
}

#[derive(Clone, Debug, PartialEq, Default)]
pub struct Program {
    pub sorts: Vec<Sort>,
    pub rels: Vec<Rel>,
    pub rules: Vec<Rule>,
}

impl Program {
    pub fn has_nonsurjective(&self) -> bool {
        fn stmts_have(ss: &[Stmt]) -> bool {
            ss.iter().any(|s| match s {
                Stmt::Then(Atom::Defined(_)) | Stmt::Then(Atom::DefinedAs(_, _)) => true,
                Stmt::Branch(bs) => bs.iter().any(|b| stmts_have(b)),
                Stmt::Match(_, cs) => cs.iter().any(|c| stmts_have(&c.body)),
                _ => false,
            })
        }
        self.rules.iter().any(|r| stmts_have(&r.stmts))
    }
    pub fn sort_snake(&self, s: usize) -> String {
        to_snake(&self.sorts[s].name)
    }
    pub fn rel_snake(&self, r: usize) -> String {
        to_snake(&self.rels[r].name)
    }
}

/// UpperCamel / lower_snake -> lower_snake (alphabetic identifiers only).
pub fn to_snake(name: &str) -> String {
    let mut out = String::new();
    for (i, c) in name.chars().enumerate() {
        if c.is_ascii_uppercase() {
            if i > 0 && !out.ends_with('_') {
                out.push('_');
            }
            out.push(c.to_ascii_lowercase());
        } else {
            out.push(c);
        }
    }
    out
}

pub fn to_camel(name: &str) -> String {
    let mut out = String::new();
    let mut up = true;
    for c in name.chars() {
        if c == '_' {
            up = true;
        } else if up {
            out.push(c.to_ascii_uppercase());
            up = false;
        } else {
            out.push(c);
        }
    }
    out
}
