//! The reference: plain union-find + BTreeSet tables, compiled rule paths, naive matching,
//! rule checking over a dumped model (C01) and a naive chase (C02).

use crate::ast::*;
use std::collections::{BTreeMap, BTreeSet};

#[derive(Clone, Debug, PartialEq)]
pub struct Structure {
    /// per sort: union-find parent array (ids are dense per sort)
    pub parent: Vec<Vec<u32>>,
    /// per relation: canonical tuples (function graphs carry the result last)
    pub tables: Vec<BTreeSet<Vec<u32>>>,
    pub col_sorts: Vec<Vec<usize>>,
    pub is_func: Vec<bool>,
}

impl Structure {
    pub fn new(p: &Program) -> Structure {
        Structure {
            parent: vec![Vec::new(); p.sorts.len()],
            tables: vec![BTreeSet::new(); p.rels.len()],
            col_sorts: p.rels.iter().map(|r| r.column_sorts()).collect(),
            is_func: p.rels.iter().map(|r| r.is_func()).collect(),
        }
    }
    pub fn new_el(&mut self, sort: usize) -> u32 {
        let id = self.parent[sort].len() as u32;
        self.parent[sort].push(id);
        id
    }
    /// Makes ids 0..n exist (used when a structure is built from a dump of a real model).
    pub fn ensure_ids(&mut self, sort: usize, n: usize) {
        while self.parent[sort].len() < n {
            let id = self.parent[sort].len() as u32;
            self.parent[sort].push(id);
        }
    }
    pub fn root(&self, sort: usize, mut x: u32) -> u32 {
        loop {
            let p = self.parent[sort][x as usize];
            if p == x {
                return x;
            }
            x = p;
        }
    }
    pub fn roots(&self, sort: usize) -> Vec<u32> {
        (0..self.parent[sort].len() as u32).filter(|x| self.parent[sort][*x as usize] == *x).collect()
    }
    pub fn n_classes(&self, sort: usize) -> usize {
        self.roots(sort).len()
    }
    pub fn total_elements(&self) -> usize {
        self.parent.iter().map(|p| p.len()).sum()
    }
    pub fn canon_tuple(&self, rel: usize, t: &[u32]) -> Vec<u32> {
        t.iter().enumerate().map(|(i, x)| self.root(self.col_sorts[rel][i], *x)).collect()
    }
    /// Union without normalisation; call `normalize` afterwards.
    pub fn union_raw(&mut self, sort: usize, a: u32, b: u32) -> bool {
        let ra = self.root(sort, a);
        let rb = self.root(sort, b);
        if ra == rb {
            return false;
        }
        let (keep, drop) = if ra < rb { (ra, rb) } else { (rb, ra) };
        self.parent[sort][drop as usize] = keep;
        true
    }
    /// Rewrites all tuples to roots and closes under single-valuedness of function graphs.
    pub fn normalize(&mut self) {
        loop {
            for r in 0..self.tables.len() {
                let old = std::mem::take(&mut self.tables[r]);
                let mut new = BTreeSet::new();
                for t in old {
                    new.insert(self.canon_tuple(r, &t));
                }
                self.tables[r] = new;
            }
            let mut merges: Vec<(usize, u32, u32)> = Vec::new();
            for r in 0..self.tables.len() {
                if !self.is_func[r] {
                    continue;
                }
                let n = self.col_sorts[r].len();
                let mut prev: Option<&Vec<u32>> = None;
                for t in self.tables[r].iter() {
                    if let Some(p) = prev {
                        if p[..n - 1] == t[..n - 1] && p[n - 1] != t[n - 1] {
                            merges.push((self.col_sorts[r][n - 1], p[n - 1], t[n - 1]));
                        }
                    }
                    prev = Some(t);
                }
            }
            if merges.is_empty() {
                return;
            }
            for (s, a, b) in merges {
                self.union_raw(s, a, b);
            }
        }
    }
    pub fn equate(&mut self, sort: usize, a: u32, b: u32) -> bool {
        if self.union_raw(sort, a, b) {
            self.normalize();
            true
        } else {
            false
        }
    }
    pub fn insert(&mut self, rel: usize, t: &[u32]) -> bool {
        let c = self.canon_tuple(rel, t);
        if self.tables[rel].insert(c) {
            if self.is_func[rel] {
                self.normalize();
            }
            true
        } else {
            false
        }
    }
    pub fn holds(&self, rel: usize, t: &[u32]) -> bool {
        self.tables[rel].contains(&self.canon_tuple(rel, t))
    }
    pub fn eval(&self, rel: usize, args: &[u32]) -> Option<u32> {
        let c: Vec<u32> = args.iter().enumerate().map(|(i, x)| self.root(self.col_sorts[rel][i], *x)).collect();
        let n = c.len();
        // first row with this argument prefix
        let mut lo = c.clone();
        lo.push(0);
        self.tables[rel].range(lo..).next().filter(|t| t[..n] == c[..]).map(|t| t[n])
    }
    pub fn define(&mut self, rel: usize, args: &[u32]) -> u32 {
        if let Some(v) = self.eval(rel, args) {
            return v;
        }
        let res_sort = *self.col_sorts[rel].last().unwrap();
        let v = self.new_el(res_sort);
        let mut t = args.to_vec();
        t.push(v);
        self.insert(rel, &t);
        v
    }
    pub fn are_equal(&self, sort: usize, a: u32, b: u32) -> bool {
        self.root(sort, a) == self.root(sort, b)
    }
}

// ---------------------------------------------------------------------------------------------
// compiled rule paths

#[derive(Clone, Debug)]
pub enum FlatC {
    Rel(usize, Vec<usize>),
    Member(usize, usize),
    Equal(usize, usize),
}

#[derive(Clone, Debug)]
pub enum CTerm {
    Var(usize),
    App(usize, Vec<CTerm>),
}

#[derive(Clone, Debug)]
pub enum CThen {
    Pred(usize, Vec<CTerm>),
    Eq(CTerm, CTerm),
    Defined(CTerm),
    DefinedAs(usize, CTerm),
}

#[derive(Clone, Debug)]
pub enum CStmt {
    If(Vec<FlatC>, String),
    Then(CThen, String),
}

#[derive(Clone, Debug)]
pub struct CPath {
    pub rule: usize,
    pub rule_name: String,
    pub var_names: Vec<String>,
    pub var_sorts: Vec<Option<usize>>,
    pub stmts: Vec<CStmt>,
}

struct PathBuilder<'a> {
    p: &'a Program,
    var_names: Vec<String>,
    var_sorts: Vec<Option<usize>>,
    stmts: Vec<CStmt>,
    scope: BTreeMap<String, usize>,
}

impl<'a> PathBuilder<'a> {
    fn fresh(&mut self, hint: &str, sort: Option<usize>) -> usize {
        self.var_names.push(format!("{hint}#{}", self.var_names.len()));
        self.var_sorts.push(sort);
        self.var_names.len() - 1
    }
    fn var(&mut self, name: &str) -> usize {
        if let Some(i) = self.scope.get(name) {
            return *i;
        }
        self.var_names.push(name.to_string());
        self.var_sorts.push(None);
        let i = self.var_names.len() - 1;
        self.scope.insert(name.to_string(), i);
        i
    }
    fn set_sort(&mut self, v: usize, s: usize) {
        if self.var_sorts[v].is_none() {
            self.var_sorts[v] = Some(s);
        }
    }
    /// Flattens a premise term into a variable plus constraints.
    fn flat_term(&mut self, t: &Term, expect: Option<usize>, out: &mut Vec<FlatC>) -> usize {
        match t {
            Term::Var(n) => {
                let v = self.var(n);
                if let Some(s) = expect {
                    self.set_sort(v, s);
                }
                v
            }
            Term::Wild => self.fresh("_", expect),
            Term::App(r, args) => {
                let rel = &self.p.rels[*r];
                let mut vs = Vec::new();
                for (i, a) in args.iter().enumerate() {
                    vs.push(self.flat_term(a, rel.args.get(i).copied(), out));
                }
                let res = self.fresh("t", rel.result);
                vs.push(res);
                out.push(FlatC::Rel(*r, vs));
                res
            }
        }
    }
    fn term_sort(&self, t: &Term) -> Option<usize> {
        match t {
            Term::Var(n) => self.scope.get(n).and_then(|v| self.var_sorts[*v]),
            Term::Wild => None,
            Term::App(r, _) => self.p.rels[*r].result,
        }
    }
    fn if_atom(&mut self, a: &Atom) {
        let mut cs = Vec::new();
        match a {
            Atom::Pred(r, args) => {
                let rel = &self.p.rels[*r];
                let mut vs = Vec::new();
                for (i, t) in args.iter().enumerate() {
                    vs.push(self.flat_term(t, rel.args.get(i).copied(), &mut cs));
                }
                cs.push(FlatC::Rel(*r, vs));
            }
            Atom::Eq(l, r) => {
                let s = self.term_sort(l).or(self.term_sort(r));
                let a = self.flat_term(l, s, &mut cs);
                let b = self.flat_term(r, s, &mut cs);
                let s2 = self.var_sorts[a].or(self.var_sorts[b]);
                if let Some(s2) = s2 {
                    self.set_sort(a, s2);
                    self.set_sort(b, s2);
                }
                cs.push(FlatC::Equal(a, b));
            }
            Atom::Defined(t) => {
                self.flat_term(t, None, &mut cs);
            }
            Atom::DefinedAs(v, t) => {
                let a = self.flat_term(t, None, &mut cs);
                let b = self.var(v);
                if let Some(s) = self.var_sorts[a] {
                    self.set_sort(b, s);
                }
                cs.push(FlatC::Equal(a, b));
            }
            Atom::SortOf(v, s) => {
                let x = self.var(v);
                self.set_sort(x, *s);
                cs.push(FlatC::Member(x, *s));
            }
        }
        self.stmts.push(CStmt::If(cs, crate::print::atom(self.p, a)));
    }
    fn cterm(&mut self, t: &Term) -> CTerm {
        match t {
            Term::Var(n) => CTerm::Var(self.var(n)),
            Term::Wild => CTerm::Var(self.fresh("_", None)),
            Term::App(r, args) => CTerm::App(*r, args.iter().map(|a| self.cterm(a)).collect()),
        }
    }
    fn then_atom(&mut self, a: &Atom) {
        let c = match a {
            Atom::Pred(r, args) => CThen::Pred(*r, args.iter().map(|t| self.cterm(t)).collect()),
            Atom::Eq(l, r) => CThen::Eq(self.cterm(l), self.cterm(r)),
            Atom::Defined(t) => CThen::Defined(self.cterm(t)),
            Atom::DefinedAs(v, t) => {
                let ct = self.cterm(t);
                let x = self.var(v);
                if let Term::App(r, _) = t {
                    if let Some(s) = self.p.rels[*r].result {
                        self.set_sort(x, s);
                    }
                }
                CThen::DefinedAs(x, ct)
            }
            Atom::SortOf(_, _) => return,
        };
        self.stmts.push(CStmt::Then(c, crate::print::atom(self.p, a)));
    }
}

/// Expands branch / match into control-flow paths. The statements after a branch are reached
/// *through* each block: the block's statements stay part of the path, the names it introduced go
/// out of scope afterwards.
fn expand(p: &Program, stmts: &[Stmt]) -> Vec<Vec<(Stmt, usize)>> {
    // returns paths of (simple stmt, scope depth marker) -- scoping is handled by the walker below
    let _ = p;
    let mut paths: Vec<Vec<(Stmt, usize)>> = vec![Vec::new()];
    for s in stmts {
        match s {
            Stmt::If(_) | Stmt::Then(_) => {
                for path in paths.iter_mut() {
                    path.push((s.clone(), 0));
                }
            }
            Stmt::Branch(blocks) => {
                let mut next = Vec::new();
                for path in &paths {
                    for b in blocks {
                        for sub in expand(p, b) {
                            let mut np = path.clone();
                            np.push((Stmt::Branch(Vec::new()), 1)); // scope open
                            np.extend(sub);
                            np.push((Stmt::Branch(Vec::new()), 2)); // scope close
                            next.push(np);
                        }
                    }
                }
                paths = next;
            }
            Stmt::Match(t, cases) => {
                let mut next = Vec::new();
                for path in &paths {
                    for c in cases {
                        for sub in expand(p, &c.body) {
                            let mut np = path.clone();
                            np.push((Stmt::Branch(Vec::new()), 1));
                            np.push((Stmt::If(Atom::Eq(t.clone(), Term::App(c.ctor, c.vars.clone()))), 0));
                            np.extend(sub);
                            np.push((Stmt::Branch(Vec::new()), 2));
                            next.push(np);
                        }
                    }
                }
                paths = next;
            }
        }
    }
    paths
}

pub fn compile_paths(p: &Program) -> Vec<CPath> {
    let mut out = Vec::new();
    for (ri, rule) in p.rules.iter().enumerate() {
        for path in expand(p, &rule.stmts) {
            let mut b = PathBuilder {
                p,
                var_names: Vec::new(),
                var_sorts: Vec::new(),
                stmts: Vec::new(),
                scope: BTreeMap::new(),
            };
            let mut saved: Vec<BTreeMap<String, usize>> = Vec::new();
            for (s, marker) in &path {
                match (s, marker) {
                    (Stmt::Branch(_), 1) => saved.push(b.scope.clone()),
                    (Stmt::Branch(_), 2) => {
                        // names introduced inside the block go out of scope
                        let outer = saved.pop().expect("scope");
                        b.scope.retain(|k, _| outer.contains_key(k));
                    }
                    (Stmt::If(a), _) => b.if_atom(a),
                    (Stmt::Then(a), _) => b.then_atom(a),
                    _ => {}
                }
            }
            // sorts of variables may be determined by a later then-statement only
            // (`if t = x; then mul(t, u) = v;`)
            fn infer(p: &Program, t: &CTerm, expect: Option<usize>, sorts: &mut Vec<Option<usize>>) {
                match t {
                    CTerm::Var(v) => {
                        if sorts[*v].is_none() {
                            sorts[*v] = expect;
                        }
                    }
                    CTerm::App(r, args) => {
                        for (i, a) in args.iter().enumerate() {
                            infer(p, a, p.rels[*r].args.get(i).copied(), sorts);
                        }
                    }
                }
            }
            fn sort_of(p: &Program, t: &CTerm, sorts: &[Option<usize>]) -> Option<usize> {
                match t {
                    CTerm::Var(v) => sorts[*v],
                    CTerm::App(r, _) => p.rels[*r].result,
                }
            }
            for _ in 0..2 {
                for st in &b.stmts {
                    if let CStmt::Then(c, _) = st {
                        match c {
                            CThen::Pred(r, args) => {
                                for (i, a) in args.iter().enumerate() {
                                    infer(p, a, p.rels[*r].args.get(i).copied(), &mut b.var_sorts);
                                }
                            }
                            CThen::Eq(l, r) => {
                                let s = sort_of(p, l, &b.var_sorts).or(sort_of(p, r, &b.var_sorts));
                                infer(p, l, s, &mut b.var_sorts);
                                infer(p, r, s, &mut b.var_sorts);
                            }
                            CThen::Defined(t) => infer(p, t, None, &mut b.var_sorts),
                            CThen::DefinedAs(v, t) => {
                                infer(p, t, None, &mut b.var_sorts);
                                if b.var_sorts[*v].is_none() {
                                    b.var_sorts[*v] = sort_of(p, t, &b.var_sorts);
                                }
                            }
                        }
                    }
                }
            }
            // a second pass to propagate sorts through Equal constraints
            for _ in 0..3 {
                let mut eqs: Vec<(usize, usize)> = Vec::new();
                for s in &b.stmts {
                    if let CStmt::If(cs, _) = s {
                        for c in cs {
                            match c {
                                FlatC::Equal(x, y) => eqs.push((*x, *y)),
                                FlatC::Rel(r, vs) => {
                                    let cols = p.rels[*r].column_sorts();
                                    for (i, v) in vs.iter().enumerate() {
                                        if b.var_sorts[*v].is_none() {
                                            b.var_sorts[*v] = Some(cols[i]);
                                        }
                                    }
                                }
                                _ => {}
                            }
                        }
                    }
                }
                for (x, y) in eqs {
                    let s = b.var_sorts[x].or(b.var_sorts[y]);
                    b.var_sorts[x] = s;
                    b.var_sorts[y] = s;
                }
            }
            out.push(CPath {
                rule: ri,
                rule_name: rule.name.clone().unwrap_or_else(|| format!("<rule {ri}>")),
                var_names: b.var_names,
                var_sorts: b.var_sorts,
                stmts: b.stmts,
            });
        }
    }
    out
}

// ---------------------------------------------------------------------------------------------
// matching

pub type Asg = Vec<Option<u32>>;

#[derive(Debug)]
pub struct Uninterpretable(pub String);

fn extend_one(st: &Structure, path: &CPath, asg: &Asg, cs: &[FlatC], done: &mut Vec<bool>, out: &mut Vec<Asg>) -> Result<(), Uninterpretable> {
    // pick the first constraint that can be processed
    let mut pick: Option<usize> = None;
    for (i, c) in cs.iter().enumerate() {
        if done[i] {
            continue;
        }
        let ready = match c {
            FlatC::Rel(_, _) | FlatC::Member(_, _) => true,
            FlatC::Equal(a, b) => asg[*a].is_some() || asg[*b].is_some(),
        };
        if ready {
            pick = Some(i);
            break;
        }
    }
    let i = match pick {
        Some(i) => i,
        None => {
            if done.iter().all(|d| *d) {
                out.push(asg.clone());
                return Ok(());
            }
            // only equalities between unbound variables are left: enumerate one side by its sort
            let (a, _) = cs
                .iter()
                .enumerate()
                .find_map(|(i, c)| match c {
                    FlatC::Equal(a, b) if !done[i] => Some((*a, *b)),
                    _ => None,
                })
                .unwrap();
            let s = path.var_sorts[a].ok_or_else(|| Uninterpretable(format!("sort of {} undetermined", path.var_names[a])))?;
            for r in st.roots(s) {
                let mut a2 = asg.clone();
                a2[a] = Some(r);
                extend_one(st, path, &a2, cs, done, out)?;
            }
            return Ok(());
        }
    };
    done[i] = true;
    match &cs[i] {
        FlatC::Rel(r, vs) => {
            for t in st.tables[*r].iter() {
                let mut a2 = asg.clone();
                let mut ok = true;
                for (col, v) in vs.iter().enumerate() {
                    match a2[*v] {
                        Some(x) => {
                            if x != t[col] {
                                ok = false;
                                break;
                            }
                        }
                        None => a2[*v] = Some(t[col]),
                    }
                }
                if ok {
                    extend_one(st, path, &a2, cs, done, out)?;
                }
            }
        }
        FlatC::Member(v, s) => match asg[*v] {
            Some(_) => extend_one(st, path, asg, cs, done, out)?,
            None => {
                for r in st.roots(*s) {
                    let mut a2 = asg.clone();
                    a2[*v] = Some(r);
                    extend_one(st, path, &a2, cs, done, out)?;
                }
            }
        },
        FlatC::Equal(a, b) => match (asg[*a], asg[*b]) {
            (Some(x), Some(y)) => {
                if x == y {
                    extend_one(st, path, asg, cs, done, out)?;
                }
            }
            (Some(x), None) => {
                let mut a2 = asg.clone();
                a2[*b] = Some(x);
                extend_one(st, path, &a2, cs, done, out)?;
            }
            (None, Some(y)) => {
                let mut a2 = asg.clone();
                a2[*a] = Some(y);
                extend_one(st, path, &a2, cs, done, out)?;
            }
            (None, None) => unreachable!(),
        },
    }
    done[i] = false;
    Ok(())
}

/// More assignments than this for one rule prefix: the model is too big for the naive reference.
pub const MAX_ASSIGNMENTS: usize = 40_000;

pub fn extend(st: &Structure, path: &CPath, asgs: Vec<Asg>, cs: &[FlatC]) -> Result<Vec<Asg>, Uninterpretable> {
    let mut out = Vec::new();
    for a in &asgs {
        let mut done = vec![false; cs.len()];
        extend_one(st, path, a, cs, &mut done, &mut out)?;
        if out.len() > MAX_ASSIGNMENTS {
            return Err(Uninterpretable("too-big".into()));
        }
    }
    out.sort();
    out.dedup();
    Ok(out)
}

pub fn eval_term(st: &Structure, t: &CTerm, asg: &Asg) -> Option<u32> {
    match t {
        CTerm::Var(v) => asg[*v],
        CTerm::App(r, args) => {
            let mut vs = Vec::with_capacity(args.len());
            for a in args {
                vs.push(eval_term(st, a, asg)?);
            }
            st.eval(*r, &vs)
        }
    }
}

fn term_sort(p: &Program, path: &CPath, t: &CTerm) -> Option<usize> {
    match t {
        CTerm::Var(v) => path.var_sorts[*v],
        CTerm::App(r, _) => p.rels[*r].result,
    }
}

fn show_asg(path: &CPath, asg: &Asg) -> String {
    let mut parts = Vec::new();
    for (i, v) in asg.iter().enumerate() {
        if let Some(x) = v {
            if !path.var_names[i].contains('#') {
                parts.push(format!("{}={}", path.var_names[i], x));
            }
        }
    }
    parts.join(", ")
}

#[derive(Clone, Debug)]
pub struct Counterexample {
    pub rule: String,
    pub atom: String,
    pub assignment: String,
    pub premises: Vec<String>,
}

impl Counterexample {
    pub fn message(&self) -> String {
        format!(
            "rule {}: under {{{}}} the premises [{}] hold but `then {}` does not",
            self.rule,
            self.assignment,
            self.premises.join("; "),
            self.atom
        )
    }
}

/// C01 monitor: does the structure satisfy every rule (and single-valuedness)?
pub fn check_rules(p: &Program, paths: &[CPath], st: &Structure) -> Result<Option<Counterexample>, Uninterpretable> {
    for path in paths {
        let mut asgs: Vec<Asg> = vec![vec![None; path.var_names.len()]];
        let mut premises: Vec<String> = Vec::new();
        for s in &path.stmts {
            if asgs.is_empty() {
                break;
            }
            match s {
                CStmt::If(cs, text) => {
                    asgs = extend(st, path, asgs, cs)?;
                    premises.push(format!("if {text}"));
                }
                CStmt::Then(c, text) => {
                    let mut next = Vec::new();
                    for asg in asgs {
                        let mut a2 = asg.clone();
                        let ok = match c {
                            CThen::Pred(r, args) => {
                                let vs: Option<Vec<u32>> = args.iter().map(|t| eval_term(st, t, &asg)).collect();
                                matches!(vs, Some(vs) if st.holds(*r, &vs))
                            }
                            CThen::Eq(l, r) => match (eval_term(st, l, &asg), eval_term(st, r, &asg)) {
                                (Some(x), Some(y)) => {
                                    let s = term_sort(p, path, l).or(term_sort(p, path, r));
                                    match s {
                                        Some(s) => st.are_equal(s, x, y),
                                        None => x == y,
                                    }
                                }
                                _ => false,
                            },
                            CThen::Defined(t) => eval_term(st, t, &asg).is_some(),
                            CThen::DefinedAs(v, t) => match eval_term(st, t, &asg) {
                                Some(x) => {
                                    a2[*v] = Some(x);
                                    true
                                }
                                None => false,
                            },
                        };
                        if !ok {
                            return Ok(Some(Counterexample {
                                rule: path.rule_name.clone(),
                                atom: text.clone(),
                                assignment: show_asg(path, &asg),
                                premises: premises.clone(),
                            }));
                        }
                        next.push(a2);
                    }
                    asgs = next;
                    premises.push(format!("then {text}"));
                }
            }
        }
    }
    // single-valuedness of function graphs
    for (r, rel) in p.rels.iter().enumerate() {
        if !rel.is_func() {
            continue;
        }
        let n = rel.arity();
        let mut prev: Option<&Vec<u32>> = None;
        for t in st.tables[r].iter() {
            if let Some(pv) = prev {
                if pv[..n - 1] == t[..n - 1] {
                    return Ok(Some(Counterexample {
                        rule: format!("<single-valuedness of {}>", rel.name),
                        atom: format!("{:?} and {:?} agree on the arguments", pv, t),
                        assignment: String::new(),
                        premises: Vec::new(),
                    }));
                }
            }
            prev = Some(t);
        }
    }
    Ok(None)
}

// ---------------------------------------------------------------------------------------------
// naive chase

#[derive(Clone, Debug, Default)]
pub struct ChaseInfo {
    /// number of rounds that applied non-surjective conclusions
    pub def_rounds: usize,
    /// total number of saturation passes
    pub passes: usize,
    pub new_elements: usize,
}

#[derive(Debug)]
pub enum ChaseError {
    Diverged,
    Uninterpretable(String),
}

enum Action {
    Insert(usize, Vec<u32>),
    Equate(usize, u32, u32),
}

/// One pass over all paths: collects surjective actions and pending definitions.
fn pass(p: &Program, paths: &[CPath], st: &Structure) -> Result<(Vec<Action>, BTreeSet<(usize, Vec<u32>)>), ChaseError> {
    let mut actions = Vec::new();
    let mut defs: BTreeSet<(usize, Vec<u32>)> = BTreeSet::new();
    for path in paths {
        let mut asgs: Vec<Asg> = vec![vec![None; path.var_names.len()]];
        // conclusions of this path that are still waiting to be applied: a later then-statement
        // may mention a term that an earlier one of the same match defines (`then x = fa(x); then
        // pa(x, fa(x));`); such a match is re-evaluated in the next pass, once the earlier
        // conclusion is in place. At the fixed point nothing is pending, so a term that is still
        // undefined then is reported.
        let path_start = actions.len();
        for s in &path.stmts {
            if asgs.is_empty() {
                break;
            }
            match s {
                CStmt::If(cs, _) => {
                    asgs = extend(st, path, asgs, cs).map_err(|e| if e.0 == "too-big" { ChaseError::Diverged } else { ChaseError::Uninterpretable(e.0) })?;
                }
                CStmt::Then(c, text) => {
                    let mut next = Vec::new();
                    for asg in asgs {
                        match c {
                            CThen::Pred(r, args) => {
                                let vs: Option<Vec<u32>> = args.iter().map(|t| eval_term(st, t, &asg)).collect();
                                match vs {
                                    Some(vs) => {
                                        if !st.holds(*r, &vs) {
                                            actions.push(Action::Insert(*r, vs));
                                        }
                                        next.push(asg);
                                    }
                                    // an argument term is not defined (yet): the statement cannot fire;
                                    // a surjective program defines it through an earlier statement
                                    None => {
                                        if actions.len() > path_start {
                                            continue;
                                        }
                                        return Err(ChaseError::Uninterpretable(format!(
                                            "rule {}: `then {text}` mentions an undefined term",
                                            path.rule_name
                                        )));
                                    }
                                }
                            }
                            CThen::Eq(l, r) => {
                                let lv = eval_term(st, l, &asg);
                                let rv = eval_term(st, r, &asg);
                                let sort = term_sort(p, path, l).or(term_sort(p, path, r));
                                match (lv, rv) {
                                    (Some(x), Some(y)) => {
                                        let s = sort.ok_or_else(|| ChaseError::Uninterpretable("equation of unknown sort".into()))?;
                                        if !st.are_equal(s, x, y) {
                                            actions.push(Action::Equate(s, x, y));
                                        }
                                        next.push(asg);
                                    }
                                    (None, Some(v)) | (Some(v), None) => {
                                        // the undefined side is an application whose arguments evaluate:
                                        // the equation adjoins the row
                                        let und = if lv.is_none() { l } else { r };
                                        match und {
                                            CTerm::App(f, args) => {
                                                let vs: Option<Vec<u32>> = args.iter().map(|t| eval_term(st, t, &asg)).collect();
                                                match vs {
                                                    Some(mut vs) => {
                                                        vs.push(v);
                                                        actions.push(Action::Insert(*f, vs));
                                                        next.push(asg);
                                                    }
                                                    None => {
                                                        if actions.len() > path_start {
                                                            continue;
                                                        }
                                                        return Err(ChaseError::Uninterpretable(format!(
                                                            "rule {}: `then {text}`: nested undefined term",
                                                            path.rule_name
                                                        )));
                                                    }
                                                }
                                            }
                                            CTerm::Var(_) => {
                                                return Err(ChaseError::Uninterpretable(format!("rule {}: unbound variable in `then {text}`", path.rule_name)))
                                            }
                                        }
                                    }
                                    (None, None) => {
                                        if actions.len() > path_start {
                                            continue;
                                        }
                                        return Err(ChaseError::Uninterpretable(format!(
                                            "rule {}: `then {text}`: neither side is defined",
                                            path.rule_name
                                        )));
                                    }
                                }
                            }
                            CThen::Defined(t) | CThen::DefinedAs(_, t) => match eval_term(st, t, &asg) {
                                Some(x) => {
                                    let mut a2 = asg;
                                    if let CThen::DefinedAs(v, _) = c {
                                        a2[*v] = Some(x);
                                    }
                                    next.push(a2);
                                }
                                None => {
                                    // pending definition of the innermost undefined application
                                    fn innermost(st: &Structure, t: &CTerm, asg: &Asg) -> Option<(usize, Vec<u32>)> {
                                        match t {
                                            CTerm::Var(_) => None,
                                            CTerm::App(f, args) => {
                                                let mut vs = Vec::new();
                                                for a in args {
                                                    match eval_term(st, a, asg) {
                                                        Some(v) => vs.push(v),
                                                        None => return innermost(st, a, asg),
                                                    }
                                                }
                                                Some((*f, vs))
                                            }
                                        }
                                    }
                                    if let Some(d) = innermost(st, t, &asg) {
                                        defs.insert(d);
                                    }
                                }
                            },
                        }
                    }
                    asgs = next;
                }
            }
        }
    }
    Ok((actions, defs))
}

/// Naive chase with the strategy of the generated code: saturate the surjective conclusions,
/// then perform all enabled definitions at once, repeat.
pub fn chase(p: &Program, paths: &[CPath], st: &mut Structure, max_elements: usize, max_def_rounds: usize) -> Result<ChaseInfo, ChaseError> {
    let mut info = ChaseInfo::default();
    st.normalize();
    loop {
        let defs = loop {
            info.passes += 1;
            if info.passes > 400 || st.tables.iter().map(|t| t.len()).sum::<usize>() > 4000 {
                return Err(ChaseError::Diverged);
            }
            let (actions, defs) = pass(p, paths, st)?;
            if actions.is_empty() {
                break defs;
            }
            for a in actions {
                match a {
                    Action::Insert(r, t) => {
                        let c = st.canon_tuple(r, &t);
                        st.tables[r].insert(c);
                    }
                    Action::Equate(s, x, y) => {
                        st.union_raw(s, x, y);
                    }
                }
            }
            st.normalize();
        };
        if defs.is_empty() {
            return Ok(info);
        }
        info.def_rounds += 1;
        if info.def_rounds > max_def_rounds || st.total_elements() + defs.len() > max_elements {
            return Err(ChaseError::Diverged);
        }
        for (f, args) in defs {
            let before = st.total_elements();
            st.define(f, &args);
            info.new_elements += st.total_elements() - before;
            if st.total_elements() > max_elements {
                return Err(ChaseError::Diverged);
            }
        }
    }
}
