pub mod ast;
pub mod gen;
pub mod parse;
pub mod print;
pub mod structure;

pub use ast::*;
