//! Recursive-descent parser for the fragment of eqlog the simulator interprets (types, enums,
//! predicates, functions, rules with if / then / branch / match). Theories that use anything else
//! (model declarations, member access, morphism application, dom / cod) are reported as
//! unsupported and skipped by the corpus builder.

use crate::ast::*;
use std::collections::BTreeMap;

#[derive(Clone, Debug, PartialEq)]
enum Tok {
    Id(String),
    Sym(&'static str),
}

fn tokenize(src: &str) -> Result<Vec<Tok>, String> {
    let mut out = Vec::new();
    let b: Vec<char> = src.chars().collect();
    let mut i = 0;
    while i < b.len() {
        let c = b[i];
        if c.is_whitespace() {
            i += 1;
        } else if c == '/' && i + 1 < b.len() && b[i + 1] == '/' {
            while i < b.len() && b[i] != '\n' {
                i += 1;
            }
        } else if c.is_ascii_alphabetic() {
            let s = i;
            while i < b.len() && (b[i].is_ascii_alphanumeric() || b[i] == '_' || b[i] == '\'') {
                i += 1;
            }
            out.push(Tok::Id(b[s..i].iter().collect()));
        } else {
            let two: String = b[i..(i + 2).min(b.len())].iter().collect();
            let sym = match two.as_str() {
                "->" => Some("->"),
                ":=" => Some(":="),
                "=>" => Some("=>"),
                _ => None,
            };
            if let Some(s) = sym {
                out.push(Tok::Sym(s));
                i += 2;
                continue;
            }
            let s = match c {
                '(' => "(",
                ')' => ")",
                '{' => "{",
                '}' => "}",
                ',' => ",",
                ';' => ";",
                ':' => ":",
                '=' => "=",
                '!' => "!",
                '_' => "_",
                '.' => ".",
                '@' => "@",
                '*' => "*",
                other => return Err(format!("unexpected character {other:?}")),
            };
            out.push(Tok::Sym(s));
            i += 1;
        }
    }
    Ok(out)
}

struct P {
    t: Vec<Tok>,
    i: usize,
    prog: Program,
    sorts: BTreeMap<String, usize>,
    rels: BTreeMap<String, usize>,
}

impl P {
    fn peek(&self) -> Option<&Tok> {
        self.t.get(self.i)
    }
    fn peek_sym(&self, s: &str) -> bool {
        matches!(self.peek(), Some(Tok::Sym(x)) if *x == s)
    }
    fn peek_kw(&self, s: &str) -> bool {
        matches!(self.peek(), Some(Tok::Id(x)) if x == s)
    }
    fn eat(&mut self, s: &str) -> Result<(), String> {
        if self.peek_sym(s) {
            self.i += 1;
            Ok(())
        } else {
            Err(format!("expected {s:?}, found {:?}", self.peek()))
        }
    }
    fn id(&mut self) -> Result<String, String> {
        match self.peek().cloned() {
            Some(Tok::Id(s)) => {
                self.i += 1;
                Ok(s)
            }
            other => Err(format!("expected identifier, found {other:?}")),
        }
    }
    fn sort(&mut self) -> Result<usize, String> {
        let n = self.id()?;
        if n == "Mor" {
            return Err("unsupported: Mor(..) types".into());
        }
        if self.peek_sym(".") {
            return Err("unsupported: member types".into());
        }
        self.sorts.get(&n).copied().ok_or(format!("unsupported or undeclared type {n}"))
    }
    fn arg_decls(&mut self) -> Result<Vec<usize>, String> {
        self.eat("(")?;
        let mut v = Vec::new();
        while !self.peek_sym(")") {
            // optional `name:`
            if let (Some(Tok::Id(_)), Some(Tok::Sym(":"))) = (self.t.get(self.i), self.t.get(self.i + 1)) {
                self.i += 2;
            }
            v.push(self.sort()?);
            if self.peek_sym(",") {
                self.i += 1;
            }
        }
        self.eat(")")?;
        Ok(v)
    }
    fn term(&mut self) -> Result<Term, String> {
        if self.peek_sym("_") {
            self.i += 1;
            return Ok(Term::Wild);
        }
        let n = self.id()?;
        if n == "dom" || n == "cod" {
            if self.peek_sym("(") {
                return Err("unsupported: dom / cod".into());
            }
        }
        let t = if self.peek_sym("(") {
            self.i += 1;
            let mut args = Vec::new();
            while !self.peek_sym(")") {
                args.push(self.term()?);
                if self.peek_sym(",") {
                    self.i += 1;
                }
            }
            self.eat(")")?;
            let r = *self.rels.get(&n).ok_or(format!("undeclared symbol {n}"))?;
            Term::App(r, args)
        } else {
            Term::Var(n)
        };
        if self.peek_sym(".") || self.peek_sym("@") {
            return Err("unsupported: member access / morphism application".into());
        }
        Ok(t)
    }
    fn atom(&mut self, then: bool) -> Result<Atom, String> {
        let t = self.term()?;
        if self.peek_sym("=") {
            self.i += 1;
            let r = self.term()?;
            return Ok(Atom::Eq(t, r));
        }
        if self.peek_sym(":=") {
            self.i += 1;
            let r = self.term()?;
            self.eat("!")?;
            return match t {
                Term::Var(v) if then => Ok(Atom::DefinedAs(v, r)),
                _ => Err("bad := statement".into()),
            };
        }
        if self.peek_sym("!") {
            self.i += 1;
            return Ok(Atom::Defined(t));
        }
        if self.peek_sym(":") {
            self.i += 1;
            let s = self.sort()?;
            return match t {
                Term::Var(v) => Ok(Atom::SortOf(v, s)),
                _ => Err("sort atom on a non-variable".into()),
            };
        }
        match t {
            Term::App(r, args) if self.prog.rels[r].kind == RelKind::Pred => Ok(Atom::Pred(r, args)),
            other => Err(format!("not an atom: {other:?}")),
        }
    }
    fn stmts(&mut self) -> Result<Vec<Stmt>, String> {
        let mut out = Vec::new();
        while !self.peek_sym("}") {
            if self.peek_kw("if") {
                self.i += 1;
                let a = self.atom(false)?;
                self.eat(";")?;
                out.push(Stmt::If(a));
            } else if self.peek_kw("then") {
                self.i += 1;
                let a = self.atom(true)?;
                self.eat(";")?;
                out.push(Stmt::Then(a));
            } else if self.peek_kw("branch") {
                self.i += 1;
                let mut blocks = Vec::new();
                loop {
                    self.eat("{")?;
                    blocks.push(self.stmts()?);
                    self.eat("}")?;
                    if self.peek_kw("along") {
                        self.i += 1;
                    } else {
                        break;
                    }
                }
                out.push(Stmt::Branch(blocks));
            } else if self.peek_kw("match") {
                self.i += 1;
                let t = self.term()?;
                self.eat("{")?;
                let mut cases = Vec::new();
                while !self.peek_sym("}") {
                    let pat = self.term()?;
                    self.eat("=>")?;
                    self.eat("{")?;
                    let body = self.stmts()?;
                    self.eat("}")?;
                    match pat {
                        Term::App(c, vars) if matches!(self.prog.rels[c].kind, RelKind::Ctor(_)) => cases.push(MatchCase { ctor: c, vars, body }),
                        other => return Err(format!("unsupported match pattern {other:?}")),
                    }
                }
                self.eat("}")?;
                out.push(Stmt::Match(t, cases));
            } else {
                return Err(format!("unexpected token in rule body: {:?}", self.peek()));
            }
        }
        Ok(out)
    }
}

pub fn parse_program(src: &str) -> Result<Program, String> {
    let toks = tokenize(src)?;
    // first pass: collect type and enum names so that declarations may refer to later ones
    let mut p = P {
        t: toks,
        i: 0,
        prog: Program::default(),
        sorts: BTreeMap::new(),
        rels: BTreeMap::new(),
    };
    {
        let mut i = 0;
        let mut depth = 0;
        while i < p.t.len() {
            match &p.t[i] {
                Tok::Sym("{") => depth += 1,
                Tok::Sym("}") => depth -= 1,
                Tok::Id(k) if depth == 0 && (k == "type" || k == "enum") => {
                    if let Some(Tok::Id(n)) = p.t.get(i + 1) {
                        p.sorts.insert(n.clone(), p.prog.sorts.len());
                        p.prog.sorts.push(Sort {
                            name: n.clone(),
                            kind: if k == "type" { SortKind::Plain } else { SortKind::Enum(Vec::new()) },
                        });
                    }
                }
                Tok::Id(k) if depth == 0 && k == "model" => return Err("unsupported: model declarations".into()),
                _ => {}
            }
            i += 1;
        }
    }
    // second pass: signatures (rules are skipped), so that rules may use later declarations
    let mut rule_starts: Vec<usize> = Vec::new();
    while p.i < p.t.len() {
        let k = p.id()?;
        match k.as_str() {
            "type" => {
                p.id()?;
                p.eat(";")?;
            }
            "pred" => {
                let n = p.id()?;
                if p.peek_sym(":") {
                    return Err("unsupported: old-style predicate declaration".into());
                }
                let args = p.arg_decls()?;
                p.eat(";")?;
                p.rels.insert(n.clone(), p.prog.rels.len());
                p.prog.rels.push(Rel { name: n, kind: RelKind::Pred, args, result: None });
            }
            "func" => {
                let n = p.id()?;
                if p.peek_sym(":") {
                    return Err("unsupported: old-style constant declaration".into());
                }
                let args = p.arg_decls()?;
                p.eat("->")?;
                let res = p.sort()?;
                p.eat(";")?;
                p.rels.insert(n.clone(), p.prog.rels.len());
                p.prog.rels.push(Rel { name: n, kind: RelKind::Func, args, result: Some(res) });
            }
            "enum" => {
                let n = p.id()?;
                let es = p.sorts[&n];
                p.eat("{")?;
                let mut ctors = Vec::new();
                while !p.peek_sym("}") {
                    let cn = p.id()?;
                    let args = p.arg_decls()?;
                    if p.peek_sym(",") {
                        p.i += 1;
                    }
                    ctors.push(p.prog.rels.len());
                    p.rels.insert(cn.clone(), p.prog.rels.len());
                    p.prog.rels.push(Rel { name: cn, kind: RelKind::Ctor(es), args, result: Some(es) });
                }
                p.eat("}")?;
                p.prog.sorts[es].kind = SortKind::Enum(ctors);
            }
            "rule" => {
                rule_starts.push(p.i);
                // skip to the matching brace
                while !p.peek_sym("{") {
                    p.i += 1;
                    if p.i >= p.t.len() {
                        return Err("unterminated rule".into());
                    }
                }
                let mut depth = 0;
                loop {
                    if p.peek_sym("{") {
                        depth += 1;
                    } else if p.peek_sym("}") {
                        depth -= 1;
                    }
                    p.i += 1;
                    if depth == 0 {
                        break;
                    }
                    if p.i >= p.t.len() {
                        return Err("unterminated rule".into());
                    }
                }
            }
            other => return Err(format!("unsupported declaration {other}")),
        }
    }
    for s in rule_starts {
        p.i = s;
        let name = if p.peek_sym("{") { None } else { Some(p.id()?) };
        p.eat("{")?;
        let stmts = p.stmts()?;
        p.eat("}")?;
        p.prog.rules.push(Rule { name, stmts });
    }
    Ok(p.prog)
}

#[cfg(test)]
mod tests {
    use super::*;
    #[test]
    fn roundtrip_generated() {
        let mut rng = simcore::Rng::new(5);
        for _ in 0..200 {
            let knobs = crate::gen::GenKnobs::draw(&mut rng);
            let p = crate::gen::gen_program(&mut rng, &knobs);
            let text = crate::print::program(&p);
            let q = parse_program(&text).unwrap_or_else(|e| panic!("{e}\n{text}"));
            assert_eq!(crate::print::program(&q), text);
        }
    }
}
