//! Pretty printer: own AST -> .eql text.

use crate::ast::*;
use std::fmt::Write;

pub fn term(p: &Program, t: &Term) -> String {
    match t {
        Term::Var(v) => v.clone(),
        Term::Wild => "_".to_string(),
        Term::App(r, args) => {
            let a: Vec<String> = args.iter().map(|x| term(p, x)).collect();
            format!("{}({})", p.rels[*r].name, a.join(", "))
        }
    }
}

pub fn atom(p: &Program, a: &Atom) -> String {
    match a {
        Atom::Pred(r, args) => {
            let a: Vec<String> = args.iter().map(|x| term(p, x)).collect();
            format!("{}({})", p.rels[*r].name, a.join(", "))
        }
        Atom::Eq(l, r) => format!("{} = {}", term(p, l), term(p, r)),
        Atom::Defined(t) => format!("{}!", term(p, t)),
        Atom::DefinedAs(v, t) => format!("{} := {}!", v, term(p, t)),
        Atom::SortOf(v, s) => format!("{}: {}", v, p.sorts[*s].name),
    }
}

fn stmts(p: &Program, ss: &[Stmt], indent: usize, out: &mut String) {
    let pad = "    ".repeat(indent);
    for s in ss {
        match s {
            Stmt::If(a) => {
                let _ = writeln!(out, "{pad}if {};", atom(p, a));
            }
            Stmt::Then(a) => {
                let _ = writeln!(out, "{pad}then {};", atom(p, a));
            }
            Stmt::Branch(blocks) => {
                for (i, b) in blocks.iter().enumerate() {
                    if i == 0 {
                        let _ = writeln!(out, "{pad}branch {{");
                    } else {
                        let _ = writeln!(out, "{pad}}} along {{");
                    }
                    stmts(p, b, indent + 1, out);
                }
                let _ = writeln!(out, "{pad}}}");
            }
            Stmt::Match(t, cases) => {
                let _ = writeln!(out, "{pad}match {} {{", term(p, t));
                for c in cases {
                    let vs: Vec<String> = c.vars.iter().map(|v| term(p, v)).collect();
                    if c.body.is_empty() {
                        let _ = writeln!(out, "{pad}    {}({}) => {{}}", p.rels[c.ctor].name, vs.join(", "));
                    } else {
                        let _ = writeln!(out, "{pad}    {}({}) => {{", p.rels[c.ctor].name, vs.join(", "));
                        stmts(p, &c.body, indent + 2, out);
                        let _ = writeln!(out, "{pad}    }}");
                    }
                }
                let _ = writeln!(out, "{pad}}}");
            }
        }
    }
}

pub fn program(p: &Program) -> String {
    let mut out = String::new();
    for s in &p.sorts {
        match &s.kind {
            SortKind::Plain => {
                let _ = writeln!(out, "type {};", s.name);
            }
            SortKind::Enum(_) | SortKind::Member { .. } => {}
        }
    }
    // enums after plain types so that constructor argument types are declared
    for s in &p.sorts {
        if let SortKind::Enum(ctors) = &s.kind {
            let _ = writeln!(out, "enum {} {{", s.name);
            for (i, c) in ctors.iter().enumerate() {
                let r = &p.rels[*c];
                let a: Vec<String> = r.args.iter().map(|x| p.sorts[*x].name.clone()).collect();
                let _ = writeln!(out, "    {}({}){}", r.name, a.join(", "), if i + 1 < ctors.len() { "," } else { "" });
            }
            let _ = writeln!(out, "}}");
        }
    }
    for r in &p.rels {
        let a: Vec<String> = r.args.iter().map(|x| p.sorts[*x].name.clone()).collect();
        match r.kind {
            RelKind::Pred => {
                let _ = writeln!(out, "pred {}({});", r.name, a.join(", "));
            }
            RelKind::Func => {
                let _ = writeln!(out, "func {}({}) -> {};", r.name, a.join(", "), p.sorts[r.result.unwrap()].name);
            }
            RelKind::Ctor(_) => {}
        }
    }
    for r in &p.rules {
        match &r.name {
            Some(n) => {
                let _ = writeln!(out, "rule {n} {{");
            }
            None => {
                let _ = writeln!(out, "rule {{");
            }
        }
        stmts(p, &r.stmts, 1, &mut out);
        let _ = writeln!(out, "}}");
    }
    out
}
