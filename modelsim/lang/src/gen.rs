//! Typed random program generator. Produces programs that the compiler accepts with high
//! probability; shape knobs target the anchored mechanisms (joins, diagonals, repeated
//! relations, premise equalities, nested terms, wildcards, sort atoms, interleaved if/then,
//! equality conclusions, `!`, branch, match).

use crate::ast::*;
use simcore::Rng;
use std::collections::BTreeMap;

#[derive(Clone, Debug)]
pub struct GenKnobs {
    pub allow_nonsurjective: bool,
    pub allow_enum: bool,
    pub allow_branch: bool,
    pub tempting: bool,
    pub max_rules: usize,
}

impl GenKnobs {
    pub fn draw(rng: &mut Rng) -> GenKnobs {
        GenKnobs {
            allow_nonsurjective: rng.chance(3, 5),
            allow_enum: rng.chance(2, 5),
            allow_branch: rng.chance(2, 5),
            tempting: rng.chance(1, 12),
            max_rules: rng.range(1, 6) as usize,
        }
    }
}

const VAR_NAMES: &[&str] = &["x", "y", "z", "u", "v", "w", "s", "t", "a", "b", "c", "d"];

struct RuleCtx<'a> {
    p: &'a Program,
    rng: &'a mut Rng,
    /// bound variables: (name, sort)
    vars: Vec<(String, usize)>,
    next_var: usize,
}

impl<'a> RuleCtx<'a> {
    fn fresh_var(&mut self, sort: usize) -> String {
        let base = VAR_NAMES[self.next_var % VAR_NAMES.len()];
        let rounds = self.next_var / VAR_NAMES.len();
        self.next_var += 1;
        let name = if rounds == 0 { base.to_string() } else { format!("{base}{}", "x".repeat(rounds)) };
        self.vars.push((name.clone(), sort));
        name
    }
    fn bound_of(&self, sort: usize) -> Vec<String> {
        self.vars.iter().filter(|(_, s)| *s == sort).map(|(n, _)| n.clone()).collect()
    }
    fn funcs_into(&self, sort: usize) -> Vec<usize> {
        (0..self.p.rels.len())
            .filter(|r| self.p.rels[*r].kind == RelKind::Func && self.p.rels[*r].result == Some(sort))
            .collect()
    }
    /// An argument term for a premise position of the given sort.
    fn premise_arg(&mut self, sort: usize, depth: usize, earlier_in_atom: &[(Term, usize)]) -> Term {
        let bound = self.bound_of(sort);
        // diagonal: repeat a variable that already occurs in this atom
        let same: Vec<&(Term, usize)> = earlier_in_atom.iter().filter(|(t, s)| *s == sort && matches!(t, Term::Var(_))).collect();
        if !same.is_empty() && self.rng.chance(1, 4) {
            return self.rng.pick(&same).0.clone();
        }
        let roll = self.rng.below(100);
        if roll < 45 && !bound.is_empty() {
            return Term::Var(self.rng.pick(&bound).clone());
        }
        if roll < 55 {
            return Term::Wild;
        }
        if roll < 67 && depth == 0 {
            let fs = self.funcs_into(sort);
            if !fs.is_empty() {
                let f = *self.rng.pick(&fs);
                let arg_sorts = self.p.rels[f].args.clone();
                let mut args = Vec::new();
                for s in arg_sorts {
                    let a = self.premise_arg(s, depth + 1, &[]);
                    args.push(a);
                }
                return Term::App(f, args);
            }
        }
        Term::Var(self.fresh_var(sort))
    }
    fn premise_atom(&mut self) -> Option<Atom> {
        let p = self.p;
        let roll = self.rng.below(100);
        if roll < 8 {
            // sort atom
            let s = self.rng.usize_below(p.sorts.len());
            let v = self.fresh_var(s);
            return Some(Atom::SortOf(v, s));
        }
        if roll < 16 {
            // premise equality between bound variables of one sort
            let mut by_sort: BTreeMap<usize, Vec<String>> = BTreeMap::new();
            for (n, s) in &self.vars {
                by_sort.entry(*s).or_default().push(n.clone());
            }
            let cands: Vec<&Vec<String>> = by_sort.values().filter(|v| v.len() >= 2).collect();
            if !cands.is_empty() {
                let vs = *self.rng.pick(&cands);
                let a = self.rng.usize_below(vs.len());
                let mut b = self.rng.usize_below(vs.len());
                if a == b {
                    b = (b + 1) % vs.len();
                }
                return Some(Atom::Eq(Term::Var(vs[a].clone()), Term::Var(vs[b].clone())));
            }
        }
        if p.rels.is_empty() {
            return None;
        }
        let r = self.rng.usize_below(p.rels.len());
        let rel = &p.rels[r];
        // shape family "result and a LATER argument bound, an earlier argument free" for functions
        // and constructors with >= 2 arguments (`if t = Node(l, r)` with t and r known): the query
        // needs an index whose column order is not the natural one behind the result column
        if rel.is_func() && rel.args.len() >= 2 && self.rng.chance(1, 4) {
            let res = rel.result.unwrap();
            let last = *rel.args.last().unwrap();
            let res_bound = self.bound_of(res);
            let last_bound = self.bound_of(last);
            if !res_bound.is_empty() && !last_bound.is_empty() {
                let v = Term::Var(self.rng.pick(&res_bound).clone());
                let lastv = Term::Var(self.rng.pick(&last_bound).clone());
                let mut terms: Vec<Term> = Vec::new();
                for s in rel.args[..rel.args.len() - 1].to_vec() {
                    terms.push(Term::Var(self.fresh_var(s)));
                }
                terms.push(lastv);
                return Some(Atom::Eq(v, Term::App(r, terms)));
            }
        }
        let mut args: Vec<(Term, usize)> = Vec::new();
        for s in rel.args.clone() {
            let t = self.premise_arg(s, 0, &args);
            args.push((t, s));
        }
        let terms: Vec<Term> = args.iter().map(|(t, _)| t.clone()).collect();
        match rel.kind {
            RelKind::Pred => Some(Atom::Pred(r, terms)),
            RelKind::Func | RelKind::Ctor(_) => {
                let res = rel.result.unwrap();
                let roll = self.rng.below(10);
                if roll < 2 {
                    Some(Atom::Defined(Term::App(r, terms)))
                } else {
                    // v = f(args): v bound (join on the result) or fresh; sometimes a repeated argument
                    let same: Vec<&(Term, usize)> = args.iter().filter(|(t, s)| *s == res && matches!(t, Term::Var(_))).collect();
                    let v = if !same.is_empty() && self.rng.chance(1, 6) {
                        self.rng.pick(&same).0.clone()
                    } else {
                        let bound = self.bound_of(res);
                        if !bound.is_empty() && self.rng.chance(1, 3) {
                            Term::Var(self.rng.pick(&bound).clone())
                        } else {
                            Term::Var(self.fresh_var(res))
                        }
                    };
                    if self.rng.chance(1, 2) {
                        Some(Atom::Eq(v, Term::App(r, terms)))
                    } else {
                        Some(Atom::Eq(Term::App(r, terms), v))
                    }
                }
            }
        }
    }
    fn bound_term(&mut self, sort: usize) -> Option<Term> {
        let b = self.bound_of(sort);
        if b.is_empty() {
            None
        } else {
            Some(Term::Var(self.rng.pick(&b).clone()))
        }
    }
    /// A conclusion over bound variables. `nonsurj` allows `!`.
    fn conclusion(&mut self, nonsurj: bool, tempting: bool) -> Vec<Stmt> {
        let p = self.p;
        for _ in 0..8 {
            let roll = self.rng.below(100);
            if roll < 45 {
                // predicate atom
                let preds: Vec<usize> = (0..p.rels.len()).filter(|r| p.rels[*r].kind == RelKind::Pred).collect();
                if preds.is_empty() {
                    continue;
                }
                let r = *self.rng.pick(&preds);
                let mut args = Vec::new();
                let mut ok = true;
                for s in p.rels[r].args.clone() {
                    if tempting && self.rng.chance(1, 3) {
                        // a term that no earlier statement mentions: must be rejected by the compiler
                        let fs = self.funcs_into(s);
                        if !fs.is_empty() {
                            let f = *self.rng.pick(&fs);
                            let fa: Option<Vec<Term>> = p.rels[f].args.clone().into_iter().map(|s2| self.bound_term(s2)).collect();
                            if let Some(fa) = fa {
                                args.push(Term::App(f, fa));
                                continue;
                            }
                        }
                    }
                    match self.bound_term(s) {
                        Some(t) => args.push(t),
                        None => {
                            ok = false;
                            break;
                        }
                    }
                }
                if ok {
                    return vec![Stmt::Then(Atom::Pred(r, args))];
                }
            } else if roll < 62 {
                // equality of two bound variables
                let mut by_sort: BTreeMap<usize, Vec<String>> = BTreeMap::new();
                for (n, s) in &self.vars {
                    by_sort.entry(*s).or_default().push(n.clone());
                }
                let cands: Vec<&Vec<String>> = by_sort.values().filter(|v| v.len() >= 2).collect();
                if !cands.is_empty() {
                    let vs = *self.rng.pick(&cands);
                    let a = self.rng.usize_below(vs.len());
                    let mut b = self.rng.usize_below(vs.len());
                    if a == b {
                        b = (b + 1) % vs.len();
                    }
                    return vec![Stmt::Then(Atom::Eq(Term::Var(vs[a].clone()), Term::Var(vs[b].clone())))];
                }
            } else if roll < 76 {
                // f(args) = v : adjoins a row, surjective
                let funcs: Vec<usize> = (0..p.rels.len()).filter(|r| p.rels[*r].kind == RelKind::Func).collect();
                if funcs.is_empty() {
                    continue;
                }
                let f = *self.rng.pick(&funcs);
                let fa: Option<Vec<Term>> = p.rels[f].args.clone().into_iter().map(|s| self.bound_term(s)).collect();
                let v = self.bound_term(p.rels[f].result.unwrap());
                if let (Some(fa), Some(v)) = (fa, v) {
                    return if self.rng.chance(1, 2) {
                        vec![Stmt::Then(Atom::Eq(Term::App(f, fa), v))]
                    } else {
                        vec![Stmt::Then(Atom::Eq(v, Term::App(f, fa)))]
                    };
                }
            } else if nonsurj {
                // f(args)! possibly named and used
                let funcs: Vec<usize> = (0..p.rels.len())
                    .filter(|r| matches!(p.rels[*r].kind, RelKind::Func | RelKind::Ctor(_)))
                    .collect();
                if funcs.is_empty() {
                    continue;
                }
                let f = *self.rng.pick(&funcs);
                let fa: Option<Vec<Term>> = p.rels[f].args.clone().into_iter().map(|s| self.bound_term(s)).collect();
                if let Some(fa) = fa {
                    let res = p.rels[f].result.unwrap();
                    if self.rng.chance(1, 2) {
                        let v = self.fresh_var(res);
                        let mut out = vec![Stmt::Then(Atom::DefinedAs(v, Term::App(f, fa)))];
                        // use the new name so that it occurs twice
                        let follow = self.conclusion_using(res);
                        out.extend(follow);
                        return out;
                    } else {
                        let mut out = vec![Stmt::Then(Atom::Defined(Term::App(f, fa.clone())))];
                        if self.rng.chance(1, 2) {
                            // mention the term again
                            let preds: Vec<usize> = (0..p.rels.len())
                                .filter(|r| p.rels[*r].kind == RelKind::Pred && p.rels[*r].args.contains(&res))
                                .collect();
                            if !preds.is_empty() {
                                let r = *self.rng.pick(&preds);
                                let mut args = Vec::new();
                                let mut used = false;
                                let mut ok = true;
                                for s in p.rels[r].args.clone() {
                                    if s == res && !used {
                                        args.push(Term::App(f, fa.clone()));
                                        used = true;
                                    } else {
                                        match self.bound_term(s) {
                                            Some(t) => args.push(t),
                                            None => {
                                                ok = false;
                                                break;
                                            }
                                        }
                                    }
                                }
                                if ok {
                                    out.push(Stmt::Then(Atom::Pred(r, args)));
                                }
                            }
                        }
                        return out;
                    }
                }
            }
        }
        Vec::new()
    }
    /// A conclusion that mentions the most recently bound variable of the given sort.
    fn conclusion_using(&mut self, sort: usize) -> Vec<Stmt> {
        let p = self.p;
        let v = self.vars.last().unwrap().0.clone();
        let preds: Vec<usize> = (0..p.rels.len())
            .filter(|r| p.rels[*r].kind == RelKind::Pred && p.rels[*r].args.contains(&sort))
            .collect();
        if !preds.is_empty() && self.rng.chance(3, 4) {
            let r = *self.rng.pick(&preds);
            let mut args = Vec::new();
            let mut used = false;
            for s in p.rels[r].args.clone() {
                if s == sort && !used {
                    args.push(Term::Var(v.clone()));
                    used = true;
                } else {
                    match self.bound_term(s) {
                        Some(t) => args.push(t),
                        None => return vec![Stmt::Then(Atom::Eq(Term::Var(v.clone()), Term::Var(v)))],
                    }
                }
            }
            return vec![Stmt::Then(Atom::Pred(r, args))];
        }
        let others: Vec<String> = self.bound_of(sort).into_iter().filter(|n| *n != v).collect();
        if !others.is_empty() && self.rng.chance(1, 2) {
            return vec![Stmt::Then(Atom::Eq(Term::Var(v), Term::Var(self.rng.pick(&others).clone())))];
        }
        vec![Stmt::Then(Atom::Eq(Term::Var(v.clone()), Term::Var(v)))]
    }
}

fn count_vars_term(t: &Term, c: &mut BTreeMap<String, usize>) {
    match t {
        Term::Var(v) => *c.entry(v.clone()).or_insert(0) += 1,
        Term::Wild => {}
        Term::App(_, args) => args.iter().for_each(|a| count_vars_term(a, c)),
    }
}

fn count_vars_atom(a: &Atom, c: &mut BTreeMap<String, usize>) {
    match a {
        Atom::Pred(_, args) => args.iter().for_each(|t| count_vars_term(t, c)),
        Atom::Eq(l, r) => {
            count_vars_term(l, c);
            count_vars_term(r, c);
        }
        Atom::Defined(t) => count_vars_term(t, c),
        Atom::DefinedAs(v, t) => {
            *c.entry(v.clone()).or_insert(0) += 1;
            count_vars_term(t, c);
        }
        Atom::SortOf(v, _) => *c.entry(v.clone()).or_insert(0) += 1,
    }
}

fn count_vars_stmts(ss: &[Stmt], c: &mut BTreeMap<String, usize>) {
    for s in ss {
        match s {
            Stmt::If(a) | Stmt::Then(a) => count_vars_atom(a, c),
            Stmt::Branch(bs) => bs.iter().for_each(|b| count_vars_stmts(b, c)),
            Stmt::Match(t, cases) => {
                count_vars_term(t, c);
                for case in cases {
                    case.vars.iter().for_each(|v| count_vars_term(v, c));
                    count_vars_stmts(&case.body, c);
                }
            }
        }
    }
}

fn wipe_term(t: &mut Term, once: &BTreeMap<String, usize>) {
    match t {
        Term::Var(v) => {
            if once.get(v) == Some(&1) {
                *t = Term::Wild;
            }
        }
        Term::Wild => {}
        Term::App(_, args) => args.iter_mut().for_each(|a| wipe_term(a, once)),
    }
}

/// Variables that occur only once are replaced by wildcards (premises) or their statement dropped.
fn fix_singletons(ss: &mut Vec<Stmt>, once: &BTreeMap<String, usize>) {
    ss.retain(|s| match s {
        Stmt::If(Atom::SortOf(v, _)) => once.get(v) != Some(&1),
        _ => true,
    });
    for s in ss.iter_mut() {
        match s {
            Stmt::If(a) => match a {
                Atom::Pred(_, args) => args.iter_mut().for_each(|t| wipe_term(t, once)),
                Atom::Eq(l, r) => {
                    wipe_term(l, once);
                    wipe_term(r, once);
                }
                Atom::Defined(t) => wipe_term(t, once),
                _ => {}
            },
            Stmt::Then(Atom::DefinedAs(v, t)) => {
                if once.get(v) == Some(&1) {
                    *s = Stmt::Then(Atom::Defined(t.clone()));
                }
            }
            Stmt::Then(_) => {}
            Stmt::Branch(bs) => bs.iter_mut().for_each(|b| fix_singletons(b, once)),
            Stmt::Match(_, cases) => {
                for c in cases.iter_mut() {
                    c.vars.iter_mut().for_each(|v| wipe_term(v, once));
                    fix_singletons(&mut c.body, once);
                }
            }
        }
    }
}

fn has_then(ss: &[Stmt]) -> bool {
    ss.iter().any(|s| match s {
        Stmt::Then(_) => true,
        Stmt::Branch(bs) => bs.iter().any(|b| has_then(b)),
        Stmt::Match(_, cs) => cs.iter().any(|c| has_then(&c.body)),
        _ => false,
    })
}

/// `x = _` or `_ = _` premises carry no information and an equation with a wildcard side whose
/// other side is a variable is rejected as undetermined; drop them.
fn drop_trivial(ss: &mut Vec<Stmt>) {
    ss.retain(|s| match s {
        Stmt::If(Atom::Eq(l, r)) => !matches!((l, r), (Term::Wild, Term::Var(_)) | (Term::Var(_), Term::Wild) | (Term::Wild, Term::Wild)),
        _ => true,
    });
}

fn gen_rule(p: &Program, rng: &mut Rng, knobs: &GenKnobs, name: Option<String>) -> Option<Rule> {
    let mut ctx = RuleCtx {
        p,
        rng,
        vars: Vec::new(),
        next_var: 0,
    };
    let mut stmts: Vec<Stmt> = Vec::new();
    let shape = ctx.rng.below(100);
    let enum_sorts: Vec<usize> = (0..p.sorts.len()).filter(|s| matches!(p.sorts[*s].kind, SortKind::Enum(_))).collect();
    if shape < 6 && knobs.allow_nonsurjective {
        // empty premise: a constant is defined
        let consts: Vec<usize> = (0..p.rels.len()).filter(|r| p.rels[*r].kind == RelKind::Func && p.rels[*r].args.is_empty()).collect();
        if !consts.is_empty() {
            let c = *ctx.rng.pick(&consts);
            return Some(Rule {
                name,
                stmts: vec![Stmt::Then(Atom::Defined(Term::App(c, Vec::new())))],
            });
        }
    }
    let n_prem = ctx.rng.range(1, 4) as usize;
    for _ in 0..n_prem {
        if let Some(a) = ctx.premise_atom() {
            stmts.push(Stmt::If(a));
        }
    }
    // sort atoms whose variable is equated with something bound elsewhere: premise equalities are
    // compiled away by unifying variables, which moves the sort atom onto the other variable
    if ctx.rng.chance(1, 7) && !p.sorts.is_empty() {
        if ctx.rng.chance(1, 3) || ctx.vars.is_empty() {
            // x: S; y: S; x = y
            let s = ctx.rng.usize_below(p.sorts.len());
            let x = ctx.fresh_var(s);
            let y = ctx.fresh_var(s);
            stmts.push(Stmt::If(Atom::SortOf(x.clone(), s)));
            stmts.push(Stmt::If(Atom::SortOf(y.clone(), s)));
            stmts.push(Stmt::If(Atom::Eq(Term::Var(x), Term::Var(y))));
        } else {
            // ... u bound by an earlier atom ...; x: S; x = u
            let (u, s) = ctx.rng.pick(&ctx.vars.clone()).clone();
            let x = ctx.fresh_var(s);
            stmts.push(Stmt::If(Atom::SortOf(x.clone(), s)));
            if ctx.rng.chance(1, 2) {
                stmts.push(Stmt::If(Atom::Eq(Term::Var(x), Term::Var(u))));
            } else {
                stmts.push(Stmt::If(Atom::Eq(Term::Var(u), Term::Var(x))));
            }
        }
    }
    if shape >= 6 && shape < 24 && !enum_sorts.is_empty() && knobs.allow_enum {
        // match on a variable of enum sort
        let es = *ctx.rng.pick(&enum_sorts);
        let scrut = match ctx.bound_term(es) {
            Some(t) => t,
            None => {
                let v = ctx.fresh_var(es);
                stmts.push(Stmt::If(Atom::SortOf(v.clone(), es)));
                Term::Var(v)
            }
        };
        let ctors = match &p.sorts[es].kind {
            SortKind::Enum(c) => c.clone(),
            _ => unreachable!(),
        };
        let outer_vars = ctx.vars.clone();
        let mut cases = Vec::new();
        for c in ctors {
            ctx.vars = outer_vars.clone();
            let mut vars = Vec::new();
            for s in p.rels[c].args.clone() {
                if ctx.rng.chance(1, 4) {
                    vars.push(Term::Wild);
                } else {
                    vars.push(Term::Var(ctx.fresh_var(s)));
                }
            }
            let mut body = Vec::new();
            if ctx.rng.chance(3, 4) {
                body.extend(ctx.conclusion(knobs.allow_nonsurjective, false));
            }
            cases.push(MatchCase { ctor: c, vars, body });
        }
        ctx.vars = outer_vars;
        stmts.push(Stmt::Match(scrut, cases));
        if ctx.rng.chance(1, 3) {
            stmts.extend(ctx.conclusion(knobs.allow_nonsurjective, false));
        }
    } else if shape >= 24 && shape < 38 && knobs.allow_branch {
        let n_blocks = ctx.rng.range(1, 3) as usize;
        let outer_vars = ctx.vars.clone();
        let mut blocks = Vec::new();
        for _ in 0..n_blocks {
            ctx.vars = outer_vars.clone();
            let mut b = Vec::new();
            if ctx.rng.chance(2, 3) {
                if let Some(a) = ctx.premise_atom() {
                    b.push(Stmt::If(a));
                }
            }
            b.extend(ctx.conclusion(knobs.allow_nonsurjective, false));
            blocks.push(b);
        }
        ctx.vars = outer_vars;
        stmts.push(Stmt::Branch(blocks));
        if ctx.rng.chance(2, 3) {
            if ctx.rng.chance(1, 2) {
                if let Some(a) = ctx.premise_atom() {
                    stmts.push(Stmt::If(a));
                }
            }
            stmts.extend(ctx.conclusion(knobs.allow_nonsurjective, false));
        }
    } else {
        let n_concl = ctx.rng.range(1, 3) as usize;
        for i in 0..n_concl {
            let c = ctx.conclusion(knobs.allow_nonsurjective, knobs.tempting);
            stmts.extend(c);
            // interleaved if / then
            if i + 1 < n_concl && ctx.rng.chance(1, 3) {
                if let Some(a) = ctx.premise_atom() {
                    stmts.push(Stmt::If(a));
                }
            }
        }
    }
    drop_trivial(&mut stmts);
    for _ in 0..3 {
        let mut counts = BTreeMap::new();
        count_vars_stmts(&stmts, &mut counts);
        fix_singletons(&mut stmts, &counts);
        drop_trivial(&mut stmts);
    }
    if !has_then(&stmts) {
        // a rule that only has premises is legal (it concludes nothing); keep a few of them: they
        // flatten to a rule group without routines
        if stmts.is_empty() || !ctx.rng.chance(1, 3) {
            return None;
        }
    }
    Some(Rule { name, stmts })
}

const RULE_NAMES: &[&str] = &["ra", "rb", "rc", "rd", "re", "rf", "rg", "rh"];

pub fn gen_program(rng: &mut Rng, knobs: &GenKnobs) -> Program {
    let mut p = Program::default();
    let n_sorts = rng.weighted(&[0, 5, 4, 2]);
    for i in 0..n_sorts {
        p.sorts.push(Sort {
            name: ["Sa", "Sb", "Sc"][i].to_string(),
            kind: SortKind::Plain,
        });
    }
    if knobs.allow_enum {
        let es = p.sorts.len();
        let n_ctors = rng.range(1, 3) as usize;
        let mut ctors = Vec::new();
        for i in 0..n_ctors {
            let n_args = rng.weighted(&[4, 4, 2]);
            let mut args = Vec::new();
            for _ in 0..n_args {
                // constructor arguments: plain sorts, sometimes the enum itself (recursive)
                if rng.chance(1, 5) && i > 0 {
                    args.push(es);
                } else {
                    args.push(rng.usize_below(n_sorts));
                }
            }
            ctors.push(p.rels.len());
            p.rels.push(Rel {
                name: ["Ka", "Kb", "Kc"][i].to_string(),
                kind: RelKind::Ctor(es),
                args,
                result: Some(es),
            });
        }
        p.sorts.push(Sort {
            name: "En".to_string(),
            kind: SortKind::Enum(ctors),
        });
    }
    let all_sorts = p.sorts.len();
    let n_preds = rng.range(1, 4) as usize;
    for i in 0..n_preds {
        let arity = rng.weighted(&[1, 4, 5, 3]);
        let args = (0..arity).map(|_| rng.usize_below(all_sorts)).collect();
        p.rels.push(Rel {
            name: ["pa", "pb", "pc", "pd"][i].to_string(),
            kind: RelKind::Pred,
            args,
            result: None,
        });
    }
    let n_funcs = rng.weighted(&[2, 4, 3, 2]);
    for i in 0..n_funcs {
        let arity = rng.weighted(&[2, 5, 3]);
        let args = (0..arity).map(|_| rng.usize_below(all_sorts)).collect();
        p.rels.push(Rel {
            name: ["fa", "fb", "fc"][i].to_string(),
            kind: RelKind::Func,
            args,
            result: Some(rng.usize_below(n_sorts)),
        });
    }
    let n_rules = rng.range(1, knobs.max_rules as u64) as usize;
    let mut attempts = 0;
    while p.rules.len() < n_rules && attempts < 40 {
        attempts += 1;
        let name = if rng.chance(5, 6) { Some(RULE_NAMES[p.rules.len() % RULE_NAMES.len()].to_string()) } else { None };
        if let Some(r) = gen_rule(&p, rng, knobs, name) {
            p.rules.push(r);
        }
    }
    // shape family "a constructor destructured with its result and a LATER argument known, an
    // earlier one free", next to a query that knows the result only: index selection then serves
    // both with an index on the constructor graph that starts with the result column and lists the
    // arguments in another than their natural order (`ka_*_order_2_1_0`)
    let wide_ctors: Vec<usize> = (0..p.rels.len()).filter(|r| matches!(p.rels[*r].kind, RelKind::Ctor(_)) && p.rels[*r].args.len() >= 2).collect();
    if !wide_ctors.is_empty() && rng.chance(2, 3) {
        let c = *rng.pick(&wide_ctors);
        let rel = p.rels[c].clone();
        let es = rel.result.unwrap();
        let n = rel.args.len();
        let last = rel.args[n - 1];
        let v = |s: &str| Term::Var(s.to_string());
        // the conclusion: a predicate whose columns can be filled from (t: enum, s: last, l: first), else t = t
        let conclusion = |bound: &[(&str, usize)]| -> Stmt {
            for (ri, r) in p.rels.iter().enumerate() {
                if r.kind == RelKind::Pred && !r.args.is_empty() {
                    let args: Option<Vec<Term>> = r.args.iter().map(|s| bound.iter().find(|(_, bs)| bs == s).map(|(n, _)| v(n))).collect();
                    if let Some(args) = args {
                        return Stmt::Then(Atom::Pred(ri, args));
                    }
                }
            }
            Stmt::Then(Atom::Eq(v("t"), v("t")))
        };
        if n == 2 {
            let bound: Vec<(&str, usize)> = vec![("t", es), ("s", last), ("l", rel.args[0])];
            let stmts = vec![
                Stmt::If(Atom::SortOf("t".into(), es)),
                Stmt::If(Atom::SortOf("s".into(), last)),
                Stmt::If(Atom::Eq(v("t"), Term::App(c, vec![v("l"), v("s")]))),
                Stmt::Then(Atom::Eq(v("l"), v("l"))),
                conclusion(&bound),
            ];
            p.rules.push(Rule { name: Some("dxa".into()), stmts });
            let args2: Vec<Term> = (0..n).map(|i| v(["a", "b", "c"][i])).collect();
            p.rules.push(Rule {
                name: Some("dxb".into()),
                stmts: vec![
                    Stmt::If(Atom::SortOf("t".into(), es)),
                    Stmt::If(Atom::Eq(v("t"), Term::App(c, args2))),
                    Stmt::Then(Atom::Eq(v("a"), v("a"))),
                    Stmt::Then(Atom::Eq(v("b"), v("b"))),
                ],
            });
        }
    }
    // shape family "a relation of arity >= 3 that re-derives its own rows (symmetry in two columns
    // of one sort) and is looked up by its LAST column only": the lookup makes index selection pick
    // a cyclic column order (2_0_1) as the primary index, and the symmetry rule keeps presenting
    // rows that are already present -- the presence test of insert_ decides whether the close loop
    // ever comes to rest
    let sym: Vec<usize> = (0..p.rels.len())
        .filter(|r| p.rels[*r].kind == RelKind::Pred && p.rels[*r].args.len() == 3 && p.rels[*r].args[0] == p.rels[*r].args[1])
        .collect();
    if !sym.is_empty() && rng.chance(1, 2) {
        let r = *rng.pick(&sym);
        let last = p.rels[r].args[2];
        let v = |s: &str| Term::Var(s.to_string());
        p.rules.push(Rule {
            name: Some("sya".into()),
            stmts: vec![
                Stmt::If(Atom::Pred(r, vec![v("x"), v("y"), v("z")])),
                Stmt::Then(Atom::Pred(r, vec![v("y"), v("x"), v("z")])),
            ],
        });
        p.rules.push(Rule {
            name: Some("syb".into()),
            stmts: vec![
                Stmt::If(Atom::SortOf("z".into(), last)),
                Stmt::If(Atom::Pred(r, vec![v("a"), Term::Wild, v("z")])),
                Stmt::Then(Atom::Eq(v("a"), v("a"))),
            ],
        });
    }
    // shape family "a chain of overlapping premise equalities over three variables that are all
    // bound by atoms" (`p(a); q(b); a = b; r(c); b = c`): premise equalities are compiled away by
    // renaming variables to their class representative, which has to follow chains. The decision
    // and the choices come from a generator of their own (seeded by the program text so far), so
    // that programs without this rule are exactly what they were before the family existed.
    {
        let mut r2 = Rng::new(simcore::fnv_str(&crate::print::program(&p)) ^ 0x6571_6368_6169_6e);
        // predicates with a column of sort s, as (relation, column)
        let with_col = |s: usize| -> Vec<(usize, usize)> {
            let mut v = Vec::new();
            for (ri, r) in p.rels.iter().enumerate() {
                if r.kind == RelKind::Pred {
                    for (ci, cs) in r.args.iter().enumerate() {
                        if *cs == s {
                            v.push((ri, ci));
                        }
                    }
                }
            }
            v
        };
        let plain: Vec<usize> = (0..p.sorts.len()).filter(|s| p.sorts[*s].kind == SortKind::Plain && !with_col(*s).is_empty()).collect();
        if !plain.is_empty() && r2.chance(1, 3) {
            let s = *r2.pick(&plain);
            let cols = with_col(s);
            let v = |n: &str| Term::Var(n.to_string());
            let atom = |r2: &mut Rng, name: &str| -> Stmt {
                let (ri, ci) = *r2.pick(&cols);
                let args: Vec<Term> = (0..p.rels[ri].args.len()).map(|i| if i == ci { v(name) } else { Term::Wild }).collect();
                Stmt::If(Atom::Pred(ri, args))
            };
            // the conclusion: a predicate all of whose columns have sort s, filled with a (and c)
            let concl = p.rels.iter().position(|r| r.kind == RelKind::Pred && !r.args.is_empty() && r.args.iter().all(|x| *x == s));
            if let Some(ci) = concl {
                let n = p.rels[ci].args.len();
                let cargs: Vec<Term> = (0..n).map(|i| if i % 2 == 0 { v("a") } else { v("c") }).collect();
                let mut stmts = vec![atom(&mut r2, "a"), atom(&mut r2, "b")];
                if r2.chance(1, 2) {
                    // interleaved: p(a); q(b); a = b; r(c); b = c
                    stmts.push(Stmt::If(Atom::Eq(v("a"), v("b"))));
                    stmts.push(atom(&mut r2, "c"));
                    stmts.push(Stmt::If(Atom::Eq(v("b"), v("c"))));
                } else {
                    // all atoms first, then c = d style chain: p(a); q(b); r(c); a = b; b = c
                    stmts.push(atom(&mut r2, "c"));
                    stmts.push(Stmt::If(Atom::Eq(v("a"), v("b"))));
                    stmts.push(Stmt::If(Atom::Eq(v("b"), v("c"))));
                }
                stmts.push(Stmt::Then(Atom::Pred(ci, cargs)));
                p.rules.push(Rule { name: Some("eqc".into()), stmts });
            }
        }
    }
    p
}

// ---------------------------------------------------------------------------------------------
// programs with a model declaration (C17 / C18)

pub struct ModelProg {
    /// the flat view of the theory (model elements, morphisms, dom / cod and member relations as
    /// ordinary sorts and relations) followed by the implicit inheritance rules
    pub program: Program,
    pub text: String,
    pub n_user_rules: usize,
    pub model_sort: usize,
    pub mor_sort: usize,
    pub dom_rel: usize,
    pub cod_rel: usize,
    pub member_rels: Vec<usize>,
    pub constants: Vec<usize>,
    /// member types: (sort, membership relation, morphism-application function)
    pub member_sorts: Vec<(usize, usize, usize)>,
}

/// how the flat view is printed as surface syntax
struct MCtx<'a> {
    members: &'a [usize],
    mor_sort: usize,
    model_sort: usize,
    /// (membership relation, application function) of the member type, if the program has one
    member_type: Option<(usize, usize)>,
}

fn mterm(p: &Program, mp: (usize, usize), cx: &MCtx, t: &Term) -> String {
    match t {
        Term::Var(v) => v.clone(),
        Term::Wild => "_".into(),
        Term::App(r, args) => {
            if *r == mp.0 {
                format!("dom({})", mterm(p, mp, cx, &args[0]))
            } else if *r == mp.1 {
                format!("cod({})", mterm(p, mp, cx, &args[0]))
            } else if cx.member_type.map(|(_, app)| app == *r).unwrap_or(false) {
                format!("{}@({})", mterm(p, mp, cx, &args[0]), mterm(p, mp, cx, &args[1]))
            } else if cx.members.contains(r) {
                let rest: Vec<String> = args[1..].iter().map(|x| mterm(p, mp, cx, x)).collect();
                format!("{}.{}({})", mterm(p, mp, cx, &args[0]), p.rels[*r].name, rest.join(", "))
            } else {
                let a: Vec<String> = args.iter().map(|x| mterm(p, mp, cx, x)).collect();
                format!("{}({})", p.rels[*r].name, a.join(", "))
            }
        }
    }
}

fn matom(p: &Program, mp: (usize, usize), cx: &MCtx, a: &Atom) -> String {
    match a {
        Atom::Pred(r, args) if cx.member_type.map(|(ms, _)| ms == *r).unwrap_or(false) => {
            let el = match &p.sorts[p.rels[*r].args[1]] {
                s => s.name.clone(),
            };
            format!("{}: {}.{}", mterm(p, mp, cx, &args[1]), mterm(p, mp, cx, &args[0]), el)
        }
        Atom::Pred(r, args) if cx.members.contains(r) => {
            let rest: Vec<String> = args[1..].iter().map(|x| mterm(p, mp, cx, x)).collect();
            format!("{}.{}({})", mterm(p, mp, cx, &args[0]), p.rels[*r].name, rest.join(", "))
        }
        Atom::Pred(r, args) => {
            let a: Vec<String> = args.iter().map(|x| mterm(p, mp, cx, x)).collect();
            format!("{}({})", p.rels[*r].name, a.join(", "))
        }
        Atom::Eq(l, r) => format!("{} = {}", mterm(p, mp, cx, l), mterm(p, mp, cx, r)),
        Atom::Defined(t) => format!("{}!", mterm(p, mp, cx, t)),
        Atom::DefinedAs(v, t) => format!("{} := {}!", v, mterm(p, mp, cx, t)),
        Atom::SortOf(v, s) => {
            if *s == cx.mor_sort {
                format!("{}: Mor({})", v, p.sorts[cx.model_sort].name)
            } else {
                format!("{}: {}", v, p.sorts[*s].name)
            }
        }
    }
}

pub fn gen_model_program(rng: &mut Rng) -> ModelProg {
    use std::fmt::Write;
    let mut p = Program::default();
    let two_carriers = rng.chance(1, 3);
    p.sorts.push(Sort { name: "Ca".into(), kind: SortKind::Plain });
    if two_carriers {
        p.sorts.push(Sort { name: "Cb".into(), kind: SortKind::Plain });
    }
    let model_sort = p.sorts.len();
    p.sorts.push(Sort { name: "Mo".into(), kind: SortKind::Plain });
    let mor_sort = p.sorts.len();
    p.sorts.push(Sort { name: "MoMor".into(), kind: SortKind::Plain });
    let second = if two_carriers && rng.chance(1, 2) { 1 } else { 0 };
    // member predicates
    let mut member_rels = Vec::new();
    member_rels.push(p.rels.len());
    p.rels.push(Rel { name: "ma".into(), kind: RelKind::Pred, args: vec![model_sort, 0], result: None });
    let has_mb = rng.chance(2, 3);
    if has_mb {
        member_rels.push(p.rels.len());
        p.rels.push(Rel { name: "mb".into(), kind: RelKind::Pred, args: vec![model_sort, 0, second], result: None });
    }
    let ga = p.rels.len();
    p.rels.push(Rel { name: "ga".into(), kind: RelKind::Pred, args: vec![0], result: None });
    let gb = p.rels.len();
    p.rels.push(Rel { name: "gb".into(), kind: RelKind::Pred, args: vec![0, second], result: None });
    // global predicates that mention model elements: their tuples are not inherited, so a match
    // that is missed for an inherited tuple cannot be papered over by inheritance
    let gm = p.rels.len();
    p.rels.push(Rel { name: "gm".into(), kind: RelKind::Pred, args: vec![model_sort, 0], result: None });
    let gmm = p.rels.len();
    p.rels.push(Rel { name: "gmm".into(), kind: RelKind::Pred, args: vec![model_sort, model_sort], result: None });
    let with_constants = rng.chance(1, 2);
    let mut constants = Vec::new();
    if with_constants {
        for n in ["oa", "ob"] {
            constants.push(p.rels.len());
            p.rels.push(Rel { name: n.into(), kind: RelKind::Func, args: vec![], result: Some(model_sort) });
        }
        constants.push(p.rels.len());
        p.rels.push(Rel { name: "fm".into(), kind: RelKind::Func, args: vec![], result: Some(mor_sort) });
    }
    let dom_rel = p.rels.len();
    p.rels.push(Rel { name: "mo_mor_dom".into(), kind: RelKind::Func, args: vec![mor_sort], result: Some(model_sort) });
    let cod_rel = p.rels.len();
    p.rels.push(Rel { name: "mo_mor_cod".into(), kind: RelKind::Func, args: vec![mor_sort], result: Some(model_sort) });
    let v = |n: &str| Term::Var(n.to_string());
    let ma = member_rels[0];
    let mut rules: Vec<Rule> = Vec::new();
    let names = ["ra", "rb", "rc", "rd", "re", "rf", "rg"];
    let mut templates: Vec<usize> = vec![0, 2, 3, 7, 8, 9, 9];
    if has_mb && second == 0 {
        templates.extend([1, 6]);
    }
    if second == 0 {
        templates.push(5);
    }
    if with_constants {
        templates.push(4);
    }
    rng.shuffle(&mut templates);
    templates.truncate(rng.range(2, 5) as usize);
    templates.sort();
    templates.dedup();
    if with_constants {
        // dom / cod of the named morphism are derived by rules, as in subset_rules.eql
        rules.push(Rule {
            name: Some("fmdom".into()),
            stmts: vec![
                Stmt::If(Atom::Eq(v("a"), Term::App(constants[0], vec![]))),
                Stmt::If(Atom::Eq(v("f"), Term::App(constants[2], vec![]))),
                Stmt::Then(Atom::Eq(Term::App(dom_rel, vec![v("f")]), v("a"))),
            ],
        });
        rules.push(Rule {
            name: Some("fmcod".into()),
            stmts: vec![
                Stmt::If(Atom::Eq(v("b"), Term::App(constants[1], vec![]))),
                Stmt::If(Atom::Eq(v("f"), Term::App(constants[2], vec![]))),
                Stmt::Then(Atom::Eq(Term::App(cod_rel, vec![v("f")]), v("b"))),
            ],
        });
    }
    for (i, t) in templates.iter().enumerate() {
        let stmts = match t {
            0 => vec![
                Stmt::If(Atom::SortOf("m".into(), model_sort)),
                Stmt::If(Atom::Pred(ma, vec![v("m"), v("x")])),
                Stmt::Then(Atom::Pred(ga, vec![v("x")])),
            ],
            1 => vec![
                Stmt::If(Atom::SortOf("m".into(), model_sort)),
                Stmt::If(Atom::Pred(ma, vec![v("m"), v("x")])),
                Stmt::If(Atom::Pred(member_rels[1], vec![v("m"), v("x"), v("y")])),
                Stmt::Then(Atom::Pred(ma, vec![v("m"), v("y")])),
            ],
            2 => vec![
                Stmt::If(Atom::SortOf("m".into(), model_sort)),
                Stmt::If(Atom::SortOf("n".into(), model_sort)),
                Stmt::If(Atom::Pred(ma, vec![v("m"), v("x")])),
                Stmt::If(Atom::Pred(ma, vec![v("n"), v("x")])),
                Stmt::If(Atom::Pred(ga, vec![v("x")])),
                Stmt::Then(Atom::Pred(gb, if second == 0 { vec![v("x"), v("x")] } else { vec![v("x"), v("w")] })),
            ],
            3 => vec![
                Stmt::If(Atom::Pred(ga, vec![v("x")])),
                Stmt::If(Atom::SortOf("m".into(), model_sort)),
                Stmt::If(Atom::Pred(ma, vec![v("m"), Term::Wild])),
                Stmt::Then(Atom::Pred(ma, vec![v("m"), v("x")])),
            ],
            4 => vec![
                Stmt::If(Atom::Pred(ma, vec![Term::App(constants[0], vec![]), v("x")])),
                Stmt::If(Atom::Pred(ma, vec![Term::App(constants[1], vec![]), v("x")])),
                Stmt::Then(Atom::Pred(ga, vec![v("x")])),
            ],
            7 => vec![
                Stmt::If(Atom::Pred(ga, vec![v("x")])),
                Stmt::If(Atom::SortOf("m".into(), model_sort)),
                Stmt::If(Atom::Pred(ma, vec![v("m"), v("x")])),
                Stmt::Then(Atom::Pred(gm, vec![v("m"), v("x")])),
            ],
            8 => vec![
                Stmt::If(Atom::SortOf("m".into(), model_sort)),
                Stmt::If(Atom::SortOf("n".into(), model_sort)),
                Stmt::If(Atom::Pred(ma, vec![v("m"), v("x")])),
                Stmt::If(Atom::Pred(ma, vec![v("n"), v("x")])),
                Stmt::Then(Atom::Pred(gmm, vec![v("m"), v("n")])),
            ],
            // a member fact derived for one particular model: its codomains get it by inheritance only
            9 => vec![
                Stmt::If(Atom::Pred(gm, vec![v("m"), v("x")])),
                Stmt::If(Atom::Pred(ga, vec![v("x")])),
                Stmt::Then(Atom::Pred(ma, vec![v("m"), v("x")])),
            ],
            5 => vec![
                Stmt::If(Atom::SortOf("m".into(), model_sort)),
                Stmt::If(Atom::Pred(ma, vec![v("m"), v("x")])),
                Stmt::If(Atom::Pred(gb, vec![v("x"), v("y")])),
                Stmt::Then(Atom::Pred(ma, vec![v("m"), v("y")])),
            ],
            _ => vec![
                Stmt::If(Atom::SortOf("m".into(), model_sort)),
                Stmt::If(Atom::Pred(member_rels[1], vec![v("m"), v("x"), v("y")])),
                Stmt::If(Atom::Pred(ma, vec![v("m"), v("x")])),
                Stmt::Then(Atom::Eq(v("x"), v("y"))),
            ],
        };
        // template 2 with a second carrier needs w bound
        let mut stmts = stmts;
        if *t == 2 && second != 0 {
            stmts.insert(0, Stmt::If(Atom::Pred(gb, vec![Term::Wild, v("w")])));
        }
        rules.push(Rule { name: Some(names[i % names.len()].to_string()), stmts });
    }
    let n_user_rules = rules.len();
    let cx = MCtx {
        members: &member_rels,
        mor_sort,
        model_sort,
        member_type: None,
    };
    // text
    let mut text = String::new();
    let _ = writeln!(text, "type Ca;");
    if two_carriers {
        let _ = writeln!(text, "type Cb;");
    }
    let _ = writeln!(text, "model Mo {{");
    for r in &member_rels {
        let rel = &p.rels[*r];
        let args: Vec<String> = rel.args[1..].iter().enumerate().map(|(i, s)| format!("{}: {}", ["x", "y", "z"][i], p.sorts[*s].name)).collect();
        let _ = writeln!(text, "    pred {}({});", rel.name, args.join(", "));
    }
    let _ = writeln!(text, "}}");
    for r in [ga, gb, gm, gmm] {
        let rel = &p.rels[r];
        let args: Vec<String> = rel.args.iter().map(|s| p.sorts[*s].name.clone()).collect();
        let _ = writeln!(text, "pred {}({});", rel.name, args.join(", "));
    }
    if with_constants {
        let _ = writeln!(text, "func oa() -> Mo;\nfunc ob() -> Mo;\nfunc fm() -> Mor(Mo);");
    }
    for rule in &rules {
        let _ = writeln!(text, "rule {} {{", rule.name.clone().unwrap());
        for s in &rule.stmts {
            match s {
                Stmt::If(a) => {
                    let _ = writeln!(text, "    if {};", matom(&p, (dom_rel, cod_rel), &cx, a));
                }
                Stmt::Then(a) => {
                    let _ = writeln!(text, "    then {};", matom(&p, (dom_rel, cod_rel), &cx, a));
                }
                _ => {}
            }
        }
        let _ = writeln!(text, "}}");
    }
    // implicit inheritance: p(A, xs) and f: A -> B  =>  p(B, xs)
    for r in &member_rels {
        let n = p.rels[*r].args.len();
        let xs: Vec<Term> = (1..n).map(|i| v(["x", "y", "z"][i - 1])).collect();
        let mut from = vec![v("a")];
        from.extend(xs.clone());
        let mut to = vec![v("b")];
        to.extend(xs);
        rules.push(Rule {
            name: Some(format!("inherit_{}", p.rels[*r].name)),
            stmts: vec![
                Stmt::If(Atom::Pred(*r, from)),
                Stmt::If(Atom::Eq(Term::App(dom_rel, vec![v("f")]), v("a"))),
                Stmt::If(Atom::Eq(Term::App(cod_rel, vec![v("f")]), v("b"))),
                Stmt::Then(Atom::Pred(*r, to)),
            ],
        });
    }
    p.rules = rules;
    ModelProg {
        program: p,
        text,
        n_user_rules,
        model_sort,
        mor_sort,
        dom_rel,
        cod_rel,
        member_rels,
        constants,
        member_sorts: Vec::new(),
    }
}

// ---------------------------------------------------------------------------------------------
// programs whose model declaration has a member *type* (C17: "with member-typed components
// replaced by their images")

/// A program `model Mo { type El; pred mp(El); [pred mq(El, Ca); pred mr(El, El); func mf(El) -> El;] }`
/// with global observers and rules drawn from templates. The flat view treats `El` as an ordinary
/// sort with the membership relation `mo_member_el(Mo, El)` and the morphism application
/// `el_mor_app(MoMor, El) -> El`, exactly as the generated API does; inheritance of a member
/// relation is the flat rule `r(a, xs) & dom(f) = a & cod(f) = b & xs' = f@xs => r(b, xs')`, which
/// only fires where the images of all member-typed components are defined.
pub fn gen_member_program(rng: &mut Rng) -> ModelProg {
    use std::fmt::Write;
    let mut p = Program::default();
    p.sorts.push(Sort { name: "Ca".into(), kind: SortKind::Plain });
    let ca = 0usize;
    let model_sort = p.sorts.len();
    p.sorts.push(Sort { name: "Mo".into(), kind: SortKind::Plain });
    let mor_sort = p.sorts.len();
    p.sorts.push(Sort { name: "MoMor".into(), kind: SortKind::Plain });
    let el = p.sorts.len();
    // membership_rel is patched below once its index is known
    p.sorts.push(Sort { name: "El".into(), kind: SortKind::Member { model_sort, membership_rel: usize::MAX } });
    let has_mq = rng.chance(3, 4);
    let has_mr = rng.chance(3, 4);
    let has_mf = rng.chance(1, 2);
    let mut member_rels = Vec::new();
    let mp_rel = p.rels.len();
    member_rels.push(mp_rel);
    p.rels.push(Rel { name: "mp".into(), kind: RelKind::Pred, args: vec![model_sort, el], result: None });
    let mq = p.rels.len();
    if has_mq {
        member_rels.push(mq);
        p.rels.push(Rel { name: "mq".into(), kind: RelKind::Pred, args: vec![model_sort, el, ca], result: None });
    }
    let mr = p.rels.len();
    if has_mr {
        member_rels.push(mr);
        p.rels.push(Rel { name: "mr".into(), kind: RelKind::Pred, args: vec![model_sort, el, el], result: None });
    }
    let mf = p.rels.len();
    if has_mf {
        member_rels.push(mf);
        p.rels.push(Rel { name: "mf".into(), kind: RelKind::Func, args: vec![model_sort, el], result: Some(el) });
    }
    let ga = p.rels.len();
    p.rels.push(Rel { name: "ga".into(), kind: RelKind::Pred, args: vec![ca], result: None });
    let gm = p.rels.len();
    p.rels.push(Rel { name: "gm".into(), kind: RelKind::Pred, args: vec![model_sort, ca], result: None });
    let gmo = p.rels.len();
    p.rels.push(Rel { name: "gmo".into(), kind: RelKind::Pred, args: vec![model_sort], result: None });
    let dom_rel = p.rels.len();
    p.rels.push(Rel { name: "mo_mor_dom".into(), kind: RelKind::Func, args: vec![mor_sort], result: Some(model_sort) });
    let cod_rel = p.rels.len();
    p.rels.push(Rel { name: "mo_mor_cod".into(), kind: RelKind::Func, args: vec![mor_sort], result: Some(model_sort) });
    let app = p.rels.len();
    p.rels.push(Rel { name: "el_mor_app".into(), kind: RelKind::Func, args: vec![mor_sort, el], result: Some(el) });
    let mem = p.rels.len();
    p.rels.push(Rel { name: "mo_member_el".into(), kind: RelKind::Pred, args: vec![model_sort, el], result: None });
    p.sorts[el].kind = SortKind::Member { model_sort, membership_rel: mem };

    let v = |n: &str| Term::Var(n.to_string());
    let m_is_mo = || Stmt::If(Atom::SortOf("m".into(), model_sort));
    // (template, needs mq, needs mr, needs mf)
    let all: [(usize, bool, bool, bool); 14] = [
        (0, true, false, false),
        (1, true, false, false),
        (2, false, false, true),
        (3, false, true, false),
        (4, false, false, false),
        (5, true, false, false),
        (6, false, true, false),
        (7, false, false, false),
        (8, false, true, false),
        (9, false, true, true),
        (10, true, true, false),
        (11, false, true, false),
        (12, true, false, false),
        (13, false, false, false),
    ];
    let mut templates: Vec<usize> = all
        .iter()
        .filter(|(_, q, r, f)| (!*q || has_mq) && (!*r || has_mr) && (!*f || has_mf))
        .map(|(t, _, _, _)| *t)
        .collect();
    rng.shuffle(&mut templates);
    templates.truncate(rng.range(2, 6) as usize);
    templates.sort();
    let names = ["ra", "rb", "rc", "rd", "re", "rf", "rg"];
    let mut rules: Vec<Rule> = Vec::new();
    for (i, t) in templates.iter().enumerate() {
        let stmts = match t {
            // member fact observed by a global (non-inherited) predicate
            0 => vec![m_is_mo(), Stmt::If(Atom::Pred(mq, vec![v("m"), Term::Wild, v("c")])), Stmt::Then(Atom::Pred(gm, vec![v("m"), v("c")]))],
            1 => vec![m_is_mo(), Stmt::If(Atom::Pred(mq, vec![v("m"), v("x"), Term::Wild])), Stmt::Then(Atom::Pred(mp_rel, vec![v("m"), v("x")]))],
            2 => vec![
                m_is_mo(),
                Stmt::If(Atom::Eq(v("y"), Term::App(mf, vec![v("m"), v("x")]))),
                Stmt::If(Atom::Pred(mp_rel, vec![v("m"), v("x")])),
                Stmt::Then(Atom::Pred(mp_rel, vec![v("m"), v("y")])),
            ],
            3 => vec![
                m_is_mo(),
                Stmt::If(Atom::Pred(mr, vec![v("m"), v("x"), v("y")])),
                Stmt::If(Atom::Pred(mp_rel, vec![v("m"), v("x")])),
                Stmt::Then(Atom::Eq(v("x"), v("y"))),
            ],
            4 => vec![m_is_mo(), Stmt::If(Atom::Pred(mp_rel, vec![v("m"), Term::Wild])), Stmt::Then(Atom::Pred(gmo, vec![v("m")]))],
            5 => vec![
                m_is_mo(),
                Stmt::If(Atom::Pred(mp_rel, vec![v("m"), v("x")])),
                Stmt::If(Atom::Pred(ga, vec![v("c")])),
                Stmt::Then(Atom::Pred(mq, vec![v("m"), v("x"), v("c")])),
            ],
            6 => vec![m_is_mo(), Stmt::If(Atom::Pred(mr, vec![v("m"), v("x"), v("y")])), Stmt::Then(Atom::Pred(mr, vec![v("m"), v("y"), v("x")]))],
            7 => vec![
                m_is_mo(),
                Stmt::If(Atom::Pred(mem, vec![v("m"), v("x")])),
                Stmt::If(Atom::Pred(gmo, vec![v("m")])),
                Stmt::Then(Atom::Pred(mp_rel, vec![v("m"), v("x")])),
            ],
            // a rule that itself pushes a fact forward along a morphism
            8 => vec![
                m_is_mo(),
                Stmt::If(Atom::Pred(mp_rel, vec![v("m"), v("x")])),
                Stmt::If(Atom::Eq(Term::App(dom_rel, vec![v("f")]), v("m"))),
                Stmt::If(Atom::Eq(v("n"), Term::App(cod_rel, vec![v("f")]))),
                Stmt::If(Atom::Eq(v("y"), Term::App(app, vec![v("f"), v("x")]))),
                Stmt::Then(Atom::Pred(mr, vec![v("n"), v("y"), v("y")])),
            ],
            9 => vec![
                m_is_mo(),
                Stmt::If(Atom::Pred(mr, vec![v("m"), v("x"), v("y")])),
                Stmt::If(Atom::Eq(v("z"), Term::App(mf, vec![v("m"), v("x")]))),
                Stmt::Then(Atom::Eq(Term::App(mf, vec![v("m"), v("y")]), v("z"))),
            ],
            10 => vec![
                m_is_mo(),
                Stmt::If(Atom::Pred(mq, vec![v("m"), v("x"), v("c")])),
                Stmt::If(Atom::Pred(mq, vec![v("m"), v("y"), v("c")])),
                Stmt::Then(Atom::Pred(mr, vec![v("m"), v("x"), v("y")])),
            ],
            11 => vec![m_is_mo(), Stmt::If(Atom::Pred(mr, vec![v("m"), v("x"), v("x")])), Stmt::Then(Atom::Pred(mp_rel, vec![v("m"), v("x")]))],
            12 => vec![
                Stmt::If(Atom::Pred(gm, vec![v("m"), v("c")])),
                Stmt::If(Atom::Pred(mem, vec![v("m"), v("x")])),
                Stmt::If(Atom::Pred(mp_rel, vec![v("m"), v("x")])),
                Stmt::Then(Atom::Pred(mq, vec![v("m"), v("x"), v("c")])),
            ],
            // two models that share a fact kind: observed per pair of models
            _ => vec![
                m_is_mo(),
                Stmt::If(Atom::Pred(mp_rel, vec![v("m"), Term::Wild])),
                Stmt::If(Atom::Pred(ga, vec![v("c")])),
                Stmt::Then(Atom::Pred(gm, vec![v("m"), v("c")])),
            ],
        };
        rules.push(Rule { name: Some(names[i % names.len()].to_string()), stmts });
    }
    let n_user_rules = rules.len();
    let cx = MCtx {
        members: &member_rels,
        mor_sort,
        model_sort,
        member_type: Some((mem, app)),
    };
    let mut text = String::new();
    let _ = writeln!(text, "type Ca;");
    let _ = writeln!(text, "model Mo {{");
    let _ = writeln!(text, "    type El;");
    for r in &member_rels {
        let rel = &p.rels[*r];
        let args: Vec<String> = rel.args[1..].iter().enumerate().map(|(i, s)| format!("{}: {}", ["x", "y", "z"][i], p.sorts[*s].name)).collect();
        match rel.result {
            None => {
                let _ = writeln!(text, "    pred {}({});", rel.name, args.join(", "));
            }
            Some(res) => {
                let _ = writeln!(text, "    func {}({}) -> {};", rel.name, args.join(", "), p.sorts[res].name);
            }
        }
    }
    let _ = writeln!(text, "}}");
    for r in [ga, gm, gmo] {
        let rel = &p.rels[r];
        let args: Vec<String> = rel.args.iter().map(|s| p.sorts[*s].name.clone()).collect();
        let _ = writeln!(text, "pred {}({});", rel.name, args.join(", "));
    }
    for rule in &rules {
        let _ = writeln!(text, "rule {} {{", rule.name.clone().unwrap());
        for s in &rule.stmts {
            match s {
                Stmt::If(a) => {
                    let _ = writeln!(text, "    if {};", matom(&p, (dom_rel, cod_rel), &cx, a));
                }
                Stmt::Then(a) => {
                    let _ = writeln!(text, "    then {};", matom(&p, (dom_rel, cod_rel), &cx, a));
                }
                _ => {}
            }
        }
        let _ = writeln!(text, "}}");
    }
    // implicit inheritance along f: a -> b, member-typed components replaced by their images
    for r in &member_rels {
        let rel = p.rels[*r].clone();
        let cols = rel.column_sorts();
        let n = cols.len();
        let src: Vec<Term> = (1..n).map(|i| v(["x", "y", "z"][i - 1])).collect();
        let mut stmts = Vec::new();
        let mut from = vec![v("a")];
        from.extend(src.iter().cloned());
        if rel.is_func() {
            let res = from.pop().unwrap();
            stmts.push(Stmt::If(Atom::Eq(Term::App(*r, from), res)));
        } else {
            stmts.push(Stmt::If(Atom::Pred(*r, from)));
        }
        stmts.push(Stmt::If(Atom::Eq(Term::App(dom_rel, vec![v("f")]), v("a"))));
        stmts.push(Stmt::If(Atom::Eq(Term::App(cod_rel, vec![v("f")]), v("b"))));
        let mut to = vec![v("b")];
        for i in 1..n {
            if cols[i] == el {
                let img = format!("{}i", ["x", "y", "z"][i - 1]);
                stmts.push(Stmt::If(Atom::Eq(v(&img), Term::App(app, vec![v("f"), src[i - 1].clone()]))));
                to.push(v(&img));
            } else {
                to.push(src[i - 1].clone());
            }
        }
        if rel.is_func() {
            let res = to.pop().unwrap();
            stmts.push(Stmt::Then(Atom::Eq(Term::App(*r, to), res)));
        } else {
            stmts.push(Stmt::Then(Atom::Pred(*r, to)));
        }
        rules.push(Rule { name: Some(format!("inherit_{}", rel.name)), stmts });
    }
    p.rules = rules;
    ModelProg {
        program: p,
        text,
        n_user_rules,
        model_sort,
        mor_sort,
        dom_rel,
        cod_rel,
        member_rels,
        constants: Vec::new(),
        member_sorts: vec![(el, mem, app)],
    }
}
