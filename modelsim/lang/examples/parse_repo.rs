fn main() {
    let dir = std::env::args().nth(1).unwrap();
    let mut files: Vec<_> = std::fs::read_dir(&dir).unwrap().filter_map(|e| e.ok()).map(|e| e.path()).collect();
    files.sort();
    for f in files {
        if f.extension().map(|x| x == "eql").unwrap_or(false) {
            let src = std::fs::read_to_string(&f).unwrap();
            match lang::parse::parse_program(&src) {
                Ok(p) => println!("{:40} ok: {} sorts {} rels {} rules, {} bytes, nonsurj={}", f.file_name().unwrap().to_string_lossy(), p.sorts.len(), p.rels.len(), p.rules.len(), src.len(), p.has_nonsurjective()),
                Err(e) => println!("{:40} SKIP: {}", f.file_name().unwrap().to_string_lossy(), e),
            }
        }
    }
}
