//! C08: PrefixTree0..9 under multi-handle histories, compared with BTreeSet<Vec<u32>> per handle
//! after every step on every live handle (main handles of arity N and operand handles of arity
//! N-1 that share structure with them).

use eqlog_runtime::*;
use simcore::{Fnv, Json, Rng};
use std::collections::{BTreeMap, BTreeSet};

pub const MAX_HANDLES: usize = 5;
pub const MAX_SUBS: usize = 4;

type Tuple = Vec<u32>;
type Graph = Vec<(u32, u32)>;

/// Dynamic view of one arity of PrefixTree.
pub trait PT: Clone {
    const N: usize;
    type Sub: PT;
    fn new() -> Self;
    fn insert(&mut self, t: &[u32]) -> bool;
    fn remove(&mut self, t: &[u32]) -> bool;
    fn contains(&self, t: &[u32]) -> bool;
    fn is_empty(&self) -> bool;
    fn clear(&mut self);
    fn tuples(&self) -> Vec<Tuple>;
    fn union(&self, other: &Self) -> Self;
    fn difference(&self, other: &Self) -> Self;
    /// (key, tuples of the restriction) as yielded by iter_restrictions
    fn restrictions(&self) -> Vec<(u32, Vec<Tuple>)>;
    /// get(k): None, or the tuples of the returned sub-tree
    fn get_tuples(&self, k: u32) -> Option<Vec<Tuple>>;
    /// get(k).cloned(): a sub-tree handle sharing structure with self
    fn get_clone(&self, k: u32) -> Option<Self::Sub>;
    fn insert_restriction(&mut self, k: u32, sub: Self::Sub);
    fn remove_restriction(&mut self, k: u32, sub: &Self::Sub);
    fn mapped(&self, maps: &[Option<PrefixTree2>]) -> Self;
}

impl PT for PrefixTree0 {
    const N: usize = 0;
    type Sub = PrefixTree0;
    fn new() -> Self {
        PrefixTree0::new()
    }
    fn insert(&mut self, _t: &[u32]) -> bool {
        PrefixTree0::insert(self, [])
    }
    fn remove(&mut self, _t: &[u32]) -> bool {
        PrefixTree0::remove(self, [])
    }
    fn contains(&self, _t: &[u32]) -> bool {
        PrefixTree0::contains(self, [])
    }
    fn is_empty(&self) -> bool {
        PrefixTree0::is_empty(self)
    }
    fn clear(&mut self) {
        PrefixTree0::clear(self)
    }
    fn tuples(&self) -> Vec<Tuple> {
        self.iter().map(|t| t.to_vec()).collect()
    }
    fn union(&self, other: &Self) -> Self {
        PrefixTree0::union(self, other)
    }
    fn difference(&self, other: &Self) -> Self {
        PrefixTree0::difference(self, other)
    }
    fn restrictions(&self) -> Vec<(u32, Vec<Tuple>)> {
        Vec::new()
    }
    fn get_tuples(&self, _k: u32) -> Option<Vec<Tuple>> {
        None
    }
    fn get_clone(&self, _k: u32) -> Option<Self::Sub> {
        None
    }
    fn insert_restriction(&mut self, _k: u32, _sub: Self::Sub) {}
    fn remove_restriction(&mut self, _k: u32, _sub: &Self::Sub) {}
    fn mapped(&self, _maps: &[Option<PrefixTree2>]) -> Self {
        PrefixTree0::mapped(self)
    }
}

impl PT for PrefixTree1 {
    const N: usize = 1;
    type Sub = PrefixTree0;
    fn new() -> Self {
        PrefixTree1::new()
    }
    fn insert(&mut self, t: &[u32]) -> bool {
        PrefixTree1::insert(self, [t[0]])
    }
    fn remove(&mut self, t: &[u32]) -> bool {
        PrefixTree1::remove(self, [t[0]])
    }
    fn contains(&self, t: &[u32]) -> bool {
        PrefixTree1::contains(self, [t[0]])
    }
    fn is_empty(&self) -> bool {
        PrefixTree1::is_empty(self)
    }
    fn clear(&mut self) {
        PrefixTree1::clear(self)
    }
    fn tuples(&self) -> Vec<Tuple> {
        self.iter().map(|t| t.to_vec()).collect()
    }
    fn union(&self, other: &Self) -> Self {
        PrefixTree1::union(self, other)
    }
    fn difference(&self, other: &Self) -> Self {
        PrefixTree1::difference(self, other)
    }
    fn restrictions(&self) -> Vec<(u32, Vec<Tuple>)> {
        self.iter_restrictions().map(|(k, sub)| (k, sub.tuples())).collect()
    }
    fn get_tuples(&self, k: u32) -> Option<Vec<Tuple>> {
        self.get(k).map(|s| s.tuples())
    }
    fn get_clone(&self, k: u32) -> Option<Self::Sub> {
        self.get(k).cloned()
    }
    fn insert_restriction(&mut self, k: u32, sub: Self::Sub) {
        PrefixTree1::insert_restriction(self, k, sub)
    }
    fn remove_restriction(&mut self, k: u32, sub: &Self::Sub) {
        PrefixTree1::remove_restriction(self, k, sub)
    }
    fn mapped(&self, maps: &[Option<PrefixTree2>]) -> Self {
        PrefixTree1::mapped(self, maps[0].clone())
    }
}

macro_rules! impl_pt {
    ($ty:ident, $n:expr, $sub:ident, [$($i:tt),*]) => {
        impl PT for $ty {
            const N: usize = $n;
            type Sub = $sub;
            fn new() -> Self { $ty::new() }
            fn insert(&mut self, t: &[u32]) -> bool { $ty::insert(self, [$(t[$i]),*]) }
            fn remove(&mut self, t: &[u32]) -> bool { $ty::remove(self, [$(t[$i]),*]) }
            fn contains(&self, t: &[u32]) -> bool { $ty::contains(self, [$(t[$i]),*]) }
            fn is_empty(&self) -> bool { $ty::is_empty(self) }
            fn clear(&mut self) { $ty::clear(self) }
            fn tuples(&self) -> Vec<Tuple> { self.iter().map(|t| t.to_vec()).collect() }
            fn union(&self, other: &Self) -> Self { $ty::union(self, other) }
            fn difference(&self, other: &Self) -> Self { $ty::difference(self, other) }
            fn restrictions(&self) -> Vec<(u32, Vec<Tuple>)> {
                self.iter_restrictions().map(|(k, sub)| (k, sub.tuples())).collect()
            }
            fn get_tuples(&self, k: u32) -> Option<Vec<Tuple>> { self.get(k).map(|s| s.tuples()) }
            fn get_clone(&self, k: u32) -> Option<Self::Sub> { self.get(k).cloned() }
            fn insert_restriction(&mut self, k: u32, sub: Self::Sub) { $ty::insert_restriction(self, k, sub) }
            fn remove_restriction(&mut self, k: u32, sub: &Self::Sub) { $ty::remove_restriction(self, k, sub) }
            fn mapped(&self, maps: &[Option<PrefixTree2>]) -> Self {
                $ty::mapped(self, $(maps[$i].clone()),*)
            }
        }
    };
}

impl_pt!(PrefixTree2, 2, PrefixTree1, [0, 1]);
impl_pt!(PrefixTree3, 3, PrefixTree2, [0, 1, 2]);
impl_pt!(PrefixTree4, 4, PrefixTree3, [0, 1, 2, 3]);
impl_pt!(PrefixTree5, 5, PrefixTree4, [0, 1, 2, 3, 4]);
impl_pt!(PrefixTree6, 6, PrefixTree5, [0, 1, 2, 3, 4, 5]);
impl_pt!(PrefixTree7, 7, PrefixTree6, [0, 1, 2, 3, 4, 5, 6]);
impl_pt!(PrefixTree8, 8, PrefixTree7, [0, 1, 2, 3, 4, 5, 6, 7]);
impl_pt!(PrefixTree9, 9, PrefixTree8, [0, 1, 2, 3, 4, 5, 6, 7, 8]);

pub const OPS: &[&str] = &[
    "insert",
    "remove",
    "contains",
    "clear",
    "union",
    "difference",
    "insert_restriction",
    "remove_restriction",
    "mapped",
    "clone",
    "drop",
    "sub_from_get",
    "sub_insert",
    "sub_remove",
    "sub_fresh",
    "sub_drop",
];

fn op_name(s: &str) -> Option<&'static str> {
    OPS.iter().copied().find(|o| *o == s)
}

#[derive(Clone, Debug, PartialEq)]
pub struct Op {
    pub op: &'static str,
    pub h: u32,
    pub h2: u32,
    pub k: u32,
    pub aux: u32,
    /// tuple of arity N (main ops) — sub ops use t[1..]
    pub t: Vec<u32>,
    /// per-column partial maps for "mapped" (None = identity)
    pub maps: Vec<Option<Graph>>,
}

impl Op {
    pub fn to_json(&self) -> Json {
        let mut fields = vec![
            ("op", Json::str(self.op)),
            ("h", Json::Int(self.h as i64)),
            ("h2", Json::Int(self.h2 as i64)),
            ("k", Json::Int(self.k as i64)),
            ("aux", Json::Int(self.aux as i64)),
            ("t", Json::arr_u32(&self.t)),
        ];
        if !self.maps.is_empty() {
            fields.push((
                "maps",
                Json::Arr(
                    self.maps
                        .iter()
                        .map(|m| match m {
                            None => Json::Null,
                            Some(g) => Json::Arr(g.iter().map(|(a, b)| Json::arr_u32(&[*a, *b])).collect()),
                        })
                        .collect(),
                ),
            ));
        }
        Json::obj(fields)
    }
    pub fn from_json(j: &Json) -> Option<Op> {
        let maps = match j.get("maps") {
            None => Vec::new(),
            Some(m) => m
                .as_arr()?
                .iter()
                .map(|g| match g {
                    Json::Null => Some(None),
                    Json::Arr(ps) => ps
                        .iter()
                        .map(|p| {
                            let p = p.as_arr()?;
                            Some((p.first()?.as_u64()? as u32, p.get(1)?.as_u64()? as u32))
                        })
                        .collect::<Option<Vec<_>>>()
                        .map(Some),
                    _ => None,
                })
                .collect::<Option<Vec<_>>>()?,
        };
        Some(Op {
            op: op_name(j.get("op")?.as_str()?)?,
            h: j.get("h")?.as_u64()? as u32,
            h2: j.get("h2")?.as_u64()? as u32,
            k: j.get("k")?.as_u64()? as u32,
            aux: j.get("aux")?.as_u64()? as u32,
            t: j.get("t")?.as_arr()?.iter().map(|x| x.as_u64().map(|v| v as u32)).collect::<Option<Vec<_>>>()?,
            maps,
        })
    }
}

#[derive(Clone, Debug)]
pub struct Case {
    pub arity: usize,
    pub universe: u32,
    pub ops: Vec<Op>,
}

impl Case {
    pub fn to_json(&self) -> Json {
        Json::obj(vec![
            ("kind", Json::str("prefix_tree")),
            ("arity", Json::Int(self.arity as i64)),
            ("universe", Json::Int(self.universe as i64)),
            ("ops", Json::Arr(self.ops.iter().map(|o| o.to_json()).collect())),
        ])
    }
    pub fn from_json(j: &Json) -> Option<Case> {
        Some(Case {
            arity: j.get("arity")?.as_u64()? as usize,
            universe: j.get("universe")?.as_u64()? as u32,
            ops: j.get("ops")?.as_arr()?.iter().map(Op::from_json).collect::<Option<Vec<_>>>()?,
        })
    }
}

pub struct Knobs {
    pub arity: usize,
    pub universe: u32,
    pub len: usize,
    pub weights: Vec<u32>,
}

pub fn draw_knobs(rng: &mut Rng) -> Knobs {
    let arity = rng.weighted(&[1, 3, 6, 8, 4, 2, 1, 1, 1, 1]);
    let universe = *rng.pick(&[2u32, 3, 4, 4, 5, 6]);
    let len = rng.range(3, 60) as usize;
    let mut weights: Vec<u32> = OPS
        .iter()
        .map(|_| if rng.chance(1, 5) { 0 } else { rng.range(1, 8) as u32 })
        .collect();
    if weights[0] == 0 {
        weights[0] = 4;
    }
    weights[0] += 4;
    weights[3] = weights[3].min(1);
    if arity == 0 {
        for i in [6usize, 7, 11, 12, 13, 14, 15] {
            weights[i] = 0;
        }
    }
    Knobs {
        arity,
        universe,
        len,
        weights,
    }
}

pub fn gen_case(rng: &mut Rng, knobs: &Knobs) -> Case {
    let mut ops = Vec::with_capacity(knobs.len);
    for _ in 0..knobs.len {
        let op = OPS[rng.weighted(&knobs.weights)];
        let t: Vec<u32> = (0..knobs.arity).map(|_| rng.below(knobs.universe as u64) as u32).collect();
        let maps = if op == "mapped" {
            (0..knobs.arity)
                .map(|_| {
                    if rng.chance(1, 3) {
                        None
                    } else {
                        // a partial function on the universe; not necessarily injective or monotone
                        let mut g = Vec::new();
                        for a in 0..knobs.universe {
                            if rng.chance(3, 4) {
                                g.push((a, rng.below(knobs.universe as u64 + 1) as u32));
                            }
                        }
                        Some(g)
                    }
                })
                .collect()
        } else {
            Vec::new()
        };
        ops.push(Op {
            op,
            h: rng.below(64) as u32,
            h2: rng.below(64) as u32,
            k: rng.below(knobs.universe as u64) as u32,
            aux: rng.below(1 << 16) as u32,
            t,
            maps,
        });
    }
    Case {
        arity: knobs.arity,
        universe: knobs.universe,
        ops,
    }
}

#[derive(Debug, Clone)]
pub struct Fail {
    pub class: String,
    pub message: String,
    pub step: usize,
}

#[derive(Default, Debug, Clone)]
pub struct RunInfo {
    pub steps: u64,
    pub max_tuples: usize,
    pub max_handles: usize,
    pub restriction_ops_nonempty: u64,
    pub restriction_emptied_prefix: u64,
    pub shared_sub_used: u64,
    pub mapped_dropped: u64,
    pub fingerprint: u64,
}

struct Handle<T> {
    real: T,
    model: BTreeSet<Tuple>,
}

fn check<T: PT>(idx: usize, label: &str, is_target: bool, hd: &Handle<T>, universe: u32) -> Result<(), (String, String)> {
    let who = if is_target { "iter-content" } else { "isolation" };
    let got = hd.real.tuples();
    let want: Vec<Tuple> = hd.model.iter().cloned().collect();
    if got != want {
        return Err((who.into(), format!("{label} {idx}: iter yields {got:?}, reference {want:?}")));
    }
    if hd.real.is_empty() != hd.model.is_empty() {
        return Err((
            "is_empty".into(),
            format!("{label} {idx}: is_empty() = {} with {} tuples", hd.real.is_empty(), hd.model.len()),
        ));
    }
    if T::N >= 1 {
        let mut want_r: BTreeMap<u32, Vec<Tuple>> = BTreeMap::new();
        for t in hd.model.iter() {
            want_r.entry(t[0]).or_default().push(t[1..].to_vec());
        }
        let got_r = hd.real.restrictions();
        let want_rv: Vec<(u32, Vec<Tuple>)> = want_r.iter().map(|(k, v)| (*k, v.clone())).collect();
        if got_r != want_rv {
            return Err((
                "restrictions".into(),
                format!("{label} {idx}: iter_restrictions yields {got_r:?}, reference {want_rv:?}"),
            ));
        }
        for k in 0..=universe {
            let g = hd.real.get_tuples(k);
            let w = want_r.get(&k);
            let ok = match (&g, w) {
                (None, None) => true,
                (Some(g), Some(w)) => g == w,
                // a prefix without tuples may be answered by None or by an empty sub-relation
                (Some(g), None) => g.is_empty(),
                (None, Some(_)) => false,
            };
            if !ok {
                return Err(("get".into(), format!("{label} {idx}: get({k}) yields {g:?}, reference {w:?}")));
            }
        }
    }
    Ok(())
}

fn build_graph(g: &Graph) -> PrefixTree2 {
    let mut t = PrefixTree2::new();
    let mut seen = BTreeSet::new();
    for (a, b) in g {
        if seen.insert(*a) {
            PrefixTree2::insert(&mut t, [*a, *b]);
        }
    }
    t
}

pub fn exec<T: PT>(case: &Case) -> Result<RunInfo, Fail>
where
    T::Sub: PT,
{
    assert_eq!(T::N, case.arity);
    let universe = case.universe;
    let mut info = RunInfo::default();
    let mut hs: Vec<Handle<T>> = vec![Handle {
        real: T::new(),
        model: BTreeSet::new(),
    }];
    let mut subs: Vec<Handle<T::Sub>> = Vec::new();
    for (step, op) in case.ops.iter().enumerate() {
        info.steps += 1;
        let n = hs.len();
        let h = (op.h as usize) % n;
        let h2 = (op.h2 as usize) % n;
        let fail = |class: &str, message: String| Fail {
            class: class.to_string(),
            message: format!("step {step} {}: {message}", op.to_json().to_string()),
            step,
        };
        if op.t.len() != T::N {
            return Err(fail("harness", "tuple arity".into()));
        }
        let mut target: Option<usize> = None;
        let mut sub_target: Option<usize> = None;
        match op.op {
            "insert" => {
                let r = hs[h].real.insert(&op.t);
                let m = hs[h].model.insert(op.t.clone());
                if r != m {
                    return Err(fail("return-value", format!("insert returned {r}, reference {m}")));
                }
                target = Some(h);
            }
            "remove" => {
                let before_prefix = T::N >= 2 && hs[h].model.iter().filter(|t| t[0] == op.t[0]).count() == 1;
                let r = hs[h].real.remove(&op.t);
                let m = hs[h].model.remove(&op.t);
                if r != m {
                    return Err(fail("return-value", format!("remove returned {r}, reference {m}")));
                }
                if m && before_prefix {
                    info.restriction_emptied_prefix += 1;
                }
                target = Some(h);
            }
            "contains" => {
                let r = hs[h].real.contains(&op.t);
                let m = hs[h].model.contains(&op.t);
                if r != m {
                    return Err(fail("contains", format!("contains returned {r}, reference {m}")));
                }
            }
            "clear" => {
                hs[h].real.clear();
                hs[h].model.clear();
                target = Some(h);
            }
            "union" | "difference" => {
                let (real, model) = if op.op == "union" {
                    (
                        hs[h].real.union(&hs[h2].real),
                        hs[h].model.union(&hs[h2].model).cloned().collect::<BTreeSet<_>>(),
                    )
                } else {
                    (
                        hs[h].real.difference(&hs[h2].real),
                        hs[h].model.difference(&hs[h2].model).cloned().collect::<BTreeSet<_>>(),
                    )
                };
                let nh = Handle { real, model };
                if hs.len() < MAX_HANDLES && op.aux % 2 == 0 {
                    hs.push(nh);
                    target = Some(hs.len() - 1);
                } else {
                    let dst = (op.aux as usize / 2) % hs.len();
                    hs[dst] = nh;
                    target = Some(dst);
                }
            }
            "insert_restriction" | "remove_restriction" => {
                if T::N >= 1 && !subs.is_empty() {
                    let s = (op.h2 as usize) % subs.len();
                    if !subs[s].model.is_empty() {
                        info.restriction_ops_nonempty += 1;
                    }
                    let under: Vec<Tuple> = subs[s]
                        .model
                        .iter()
                        .map(|t| {
                            let mut full = vec![op.k];
                            full.extend_from_slice(t);
                            full
                        })
                        .collect();
                    if op.op == "insert_restriction" {
                        let sub = subs[s].real.clone();
                        hs[h].real.insert_restriction(op.k, sub);
                        for t in under {
                            hs[h].model.insert(t);
                        }
                    } else {
                        let had = hs[h].model.iter().any(|t| t[0] == op.k);
                        hs[h].real.remove_restriction(op.k, &subs[s].real);
                        for t in under {
                            hs[h].model.remove(&t);
                        }
                        if had && !hs[h].model.iter().any(|t| t[0] == op.k) {
                            info.restriction_emptied_prefix += 1;
                        }
                    }
                    info.shared_sub_used += 1;
                    target = Some(h);
                }
            }
            "mapped" => {
                let maps: Vec<Option<PrefixTree2>> = op.maps.iter().map(|m| m.as_ref().map(build_graph)).collect();
                if maps.len() != T::N {
                    return Err(fail("harness", "maps arity".into()));
                }
                let real = hs[h].real.mapped(&maps);
                let fmaps: Vec<Option<BTreeMap<u32, u32>>> = op
                    .maps
                    .iter()
                    .map(|m| {
                        m.as_ref().map(|g| {
                            let mut f = BTreeMap::new();
                            for (a, b) in g {
                                f.entry(*a).or_insert(*b);
                            }
                            f
                        })
                    })
                    .collect();
                let mut model = BTreeSet::new();
                for t in hs[h].model.iter() {
                    let mut out = Vec::with_capacity(t.len());
                    let mut ok = true;
                    for (i, x) in t.iter().enumerate() {
                        match &fmaps[i] {
                            None => out.push(*x),
                            Some(f) => match f.get(x) {
                                Some(y) => out.push(*y),
                                None => {
                                    ok = false;
                                    break;
                                }
                            },
                        }
                    }
                    if ok {
                        model.insert(out);
                    } else {
                        info.mapped_dropped += 1;
                    }
                }
                let nh = Handle { real, model };
                if hs.len() < MAX_HANDLES && op.aux % 2 == 0 {
                    hs.push(nh);
                    target = Some(hs.len() - 1);
                } else {
                    let dst = (op.aux as usize / 2) % hs.len();
                    hs[dst] = nh;
                    target = Some(dst);
                }
            }
            "clone" => {
                if hs.len() < MAX_HANDLES {
                    let nh = Handle {
                        real: hs[h].real.clone(),
                        model: hs[h].model.clone(),
                    };
                    hs.push(nh);
                }
            }
            "drop" => {
                if hs.len() > 1 {
                    hs.remove(h);
                }
            }
            "sub_from_get" => {
                if T::N >= 1 {
                    if let Some(real) = hs[h].real.get_clone(op.k) {
                        let model: BTreeSet<Tuple> =
                            hs[h].model.iter().filter(|t| t[0] == op.k).map(|t| t[1..].to_vec()).collect();
                        let nh = Handle { real, model };
                        if subs.len() < MAX_SUBS {
                            subs.push(nh);
                            sub_target = Some(subs.len() - 1);
                        } else {
                            let dst = (op.aux as usize) % subs.len();
                            subs[dst] = nh;
                            sub_target = Some(dst);
                        }
                    }
                }
            }
            "sub_fresh" => {
                if T::N >= 1 {
                    let nh = Handle {
                        real: <T::Sub as PT>::new(),
                        model: BTreeSet::new(),
                    };
                    if subs.len() < MAX_SUBS {
                        subs.push(nh);
                    } else {
                        let dst = (op.aux as usize) % subs.len();
                        subs[dst] = nh;
                    }
                }
            }
            "sub_insert" | "sub_remove" => {
                if T::N >= 1 && !subs.is_empty() {
                    let s = (op.h2 as usize) % subs.len();
                    let t = &op.t[1..];
                    let (r, m) = if op.op == "sub_insert" {
                        (subs[s].real.insert(t), subs[s].model.insert(t.to_vec()))
                    } else {
                        (subs[s].real.remove(t), subs[s].model.remove(t))
                    };
                    if r != m {
                        return Err(fail("return-value", format!("{} on operand returned {r}, reference {m}", op.op)));
                    }
                    sub_target = Some(s);
                }
            }
            "sub_drop" => {
                if !subs.is_empty() {
                    let s = (op.h2 as usize) % subs.len();
                    subs.remove(s);
                }
            }
            other => panic!("unknown op {other}"),
        }
        let mut total = 0;
        for (i, hd) in hs.iter().enumerate() {
            if let Err((class, message)) = check(i, "handle", target == Some(i), hd, universe) {
                return Err(fail(&class, message));
            }
            total += hd.model.len();
        }
        for (i, hd) in subs.iter().enumerate() {
            if let Err((class, message)) = check(i, "operand", sub_target == Some(i), hd, universe) {
                return Err(fail(&class, message));
            }
        }
        info.max_tuples = info.max_tuples.max(total);
        info.max_handles = info.max_handles.max(hs.len() + subs.len());
    }
    let mut fp = Fnv::new();
    fp.u32(T::N as u32);
    for hd in &hs {
        fp.u64(0xfeed);
        for t in hd.model.iter() {
            for x in t {
                fp.u32(*x);
            }
            fp.u32(u32::MAX);
        }
    }
    info.fingerprint = fp.finish();
    Ok(info)
}

pub fn exec_dyn(case: &Case) -> Result<RunInfo, Fail> {
    match case.arity {
        0 => exec::<PrefixTree0>(case),
        1 => exec::<PrefixTree1>(case),
        2 => exec::<PrefixTree2>(case),
        3 => exec::<PrefixTree3>(case),
        4 => exec::<PrefixTree4>(case),
        5 => exec::<PrefixTree5>(case),
        6 => exec::<PrefixTree6>(case),
        7 => exec::<PrefixTree7>(case),
        8 => exec::<PrefixTree8>(case),
        9 => exec::<PrefixTree9>(case),
        _ => panic!("arity"),
    }
}
