//! C14: WBTreeMap<u64> under multi-handle histories (clone / drop / mutate interleavings),
//! compared with one BTreeMap per handle after every step on every live handle.

use eqlog_runtime::wbtree::map::{Entry, WBTreeMap};
use simcore::{Fnv, Json, Rng};
use std::collections::BTreeMap;

pub const MAX_HANDLES: usize = 6;

#[derive(Clone, Debug, PartialEq)]
pub struct Op {
    pub op: &'static str,
    /// handle selector (taken modulo the number of live handles)
    pub h: u32,
    /// second handle selector for binary ops
    pub h2: u32,
    pub k: u32,
    /// write stamp / callback salt
    pub v: u64,
    /// op specific: stop-after for iter_mut, variant for entry ops
    pub aux: u32,
}

pub const OPS: &[&str] = &[
    "insert",
    "remove",
    "get",
    "get_mut",
    "entry_or_insert",
    "entry_or_insert_with",
    "entry_match",
    "iter",
    "iter_mut",
    "clear",
    "union",
    "difference",
    "clone",
    "drop",
];

fn op_name(s: &str) -> Option<&'static str> {
    OPS.iter().copied().find(|o| *o == s)
}

impl Op {
    pub fn to_json(&self) -> Json {
        Json::Arr(vec![
            Json::str(self.op),
            Json::Int(self.h as i64),
            Json::Int(self.h2 as i64),
            Json::Int(self.k as i64),
            Json::Int(self.v as i64),
            Json::Int(self.aux as i64),
        ])
    }
    pub fn from_json(j: &Json) -> Option<Op> {
        let a = j.as_arr()?;
        Some(Op {
            op: op_name(a.first()?.as_str()?)?,
            h: a.get(1)?.as_u64()? as u32,
            h2: a.get(2)?.as_u64()? as u32,
            k: a.get(3)?.as_u64()? as u32,
            v: a.get(4)?.as_u64()?,
            aux: a.get(5)?.as_u64()? as u32,
        })
    }
}

#[derive(Clone, Debug)]
pub struct Case {
    pub ops: Vec<Op>,
}

impl Case {
    pub fn to_json(&self) -> Json {
        Json::obj(vec![
            ("kind", Json::str("map")),
            ("ops", Json::Arr(self.ops.iter().map(|o| o.to_json()).collect())),
        ])
    }
    pub fn from_json(j: &Json) -> Option<Case> {
        let ops = j
            .get("ops")?
            .as_arr()?
            .iter()
            .map(Op::from_json)
            .collect::<Option<Vec<_>>>()?;
        Some(Case { ops })
    }
}

/// Per-run knobs (swarm style).
pub struct Knobs {
    pub universe: u32,
    pub len: usize,
    pub weights: Vec<u32>,
}

pub fn draw_knobs(rng: &mut Rng, long: bool) -> Knobs {
    let (universe, len) = if long {
        let u = *rng.pick(&[16u32, 64, 64, 256, 2000]);
        (u, rng.range(40, 400) as usize)
    } else {
        (6, rng.range(1, 9) as usize)
    };
    // every op kind gets weight 0 with probability 1/5, else 1..8
    let mut weights: Vec<u32> = OPS
        .iter()
        .map(|_| if rng.chance(1, 5) { 0 } else { rng.range(1, 8) as u32 })
        .collect();
    // inserts must be possible or nothing ever happens
    if weights[0] == 0 {
        weights[0] = 4;
    }
    if long {
        // long runs should grow: favour inserts, damp clear
        weights[0] += 8;
        weights[9] = weights[9].min(1);
    }
    Knobs {
        universe,
        len,
        weights,
    }
}

pub fn gen_case(rng: &mut Rng, knobs: &Knobs) -> Case {
    let mut ops = Vec::with_capacity(knobs.len);
    let mut stamp: u64 = 1;
    for _ in 0..knobs.len {
        let op = OPS[rng.weighted(&knobs.weights)];
        let o = Op {
            op,
            h: rng.below(64) as u32,
            h2: rng.below(64) as u32,
            k: rng.below(knobs.universe as u64) as u32,
            v: stamp,
            aux: rng.below(1 << 16) as u32,
        };
        // every op reserves a block of stamps so written values stay unique
        stamp += 4096;
        ops.push(o);
    }
    Case { ops }
}

#[derive(Debug, Clone)]
pub struct Fail {
    pub class: String,
    pub message: String,
    pub step: usize,
}

#[derive(Default, Debug, Clone)]
pub struct RunInfo {
    pub steps: u64,
    pub max_len: usize,
    pub max_handles: usize,
    pub shared_seen: bool,
    pub mutated_while_shared: u64,
    pub callbacks: u64,
    pub iter_mut_writes: u64,
    pub entry_occupied: u64,
    pub entry_vacant: u64,
    pub get_mut_writes: u64,
    pub fingerprint: u64,
    pub op_prefix_hash: u64,
}

/// merge callback: non-commutative in (l, r), so that swapped operands are visible
pub fn merge_fn(salt: u64, k: u32, l: u64, r: u64) -> u64 {
    let mut h = Fnv::new();
    h.u64(salt);
    h.u32(k);
    h.u64(l);
    h.u64(r.rotate_left(17) ^ 0x5555);
    h.finish() | 1
}

pub fn filter_fn(salt: u64, k: u32, l: u64, r: u64) -> Option<u64> {
    let m = merge_fn(salt ^ 0xabcdef, k, l, r);
    if m % 3 == 0 {
        Some(m)
    } else if m % 3 == 1 {
        None
    } else {
        Some(l)
    }
}

fn height_bound(n: usize) -> usize {
    // weight-balanced with DELTA=3: each child carries at most 3/4 of the weight of its parent,
    // so height <= log_{4/3}(n+1); one level of slack.
    if n == 0 {
        return 0;
    }
    (((n + 1) as f64).ln() / (4.0f64 / 3.0).ln()).floor() as usize + 1
}

struct Handle {
    real: WBTreeMap<u64>,
    model: BTreeMap<u32, u64>,
}

fn check_handle(idx: usize, acting: bool, hd: &Handle, info: &mut RunInfo) -> Result<(), (String, String)> {
    let who = if acting { "content" } else { "isolation" };
    if hd.real.len() != hd.model.len() {
        return Err((
            if acting { "len".into() } else { "isolation".into() },
            format!("handle {idx}: len {} but reference has {}", hd.real.len(), hd.model.len()),
        ));
    }
    if hd.real.is_empty() != hd.model.is_empty() {
        return Err(("len".into(), format!("handle {idx}: is_empty disagrees")));
    }
    let mut it = hd.real.iter();
    for (mk, mv) in hd.model.iter() {
        match it.next() {
            Some((k, v)) if k == *mk && *v == *mv => {}
            other => {
                return Err((
                    who.into(),
                    format!(
                        "handle {idx}: iter yields {:?} where reference has ({mk}, {mv})",
                        other.map(|(k, v)| (k, *v))
                    ),
                ))
            }
        }
    }
    if let Some((k, v)) = it.next() {
        return Err((who.into(), format!("handle {idx}: iter yields extra ({k}, {v})")));
    }
    let shape = hd.real.verif_shape();
    if !shape.balanced_and_sized {
        return Err(("balance".into(), format!("handle {idx}: weight-balance or size field violated: {shape:?}")));
    }
    if shape.data_nodes != hd.model.len() || shape.mapping_nodes != 0 {
        return Err(("balance".into(), format!("handle {idx}: node count {shape:?} but {} keys", hd.model.len())));
    }
    if shape.height > height_bound(hd.model.len()) {
        return Err((
            "height".into(),
            format!("handle {idx}: height {} exceeds bound {} for {} keys", shape.height, height_bound(hd.model.len()), hd.model.len()),
        ));
    }
    if shape.shared_nodes > 0 {
        info.shared_seen = true;
    }
    Ok(())
}

pub fn exec(case: &Case) -> Result<RunInfo, Fail> {
    let mut info = RunInfo::default();
    let mut hs: Vec<Handle> = vec![Handle {
        real: WBTreeMap::new(),
        model: BTreeMap::new(),
    }];
    let mut prefix = Fnv::new();
    for (step, op) in case.ops.iter().enumerate() {
        info.steps += 1;
        let n = hs.len();
        let h = (op.h as usize) % n;
        let h2 = (op.h2 as usize) % n;
        let fail = |class: &str, message: String| Fail {
            class: class.to_string(),
            message: format!("step {step} {:?}: {message}", op),
            step,
        };
        prefix.str(op.op);
        prefix.u32(h as u32);
        prefix.u32(op.k);
        let shared_before = hs[h].real.verif_shape().shared_nodes > 0;
        let mut mutating = true;
        let mut target: Option<usize> = Some(h);
        match op.op {
            "insert" => {
                let r = hs[h].real.insert(op.k, op.v);
                let m = hs[h].model.insert(op.k, op.v);
                if r != m {
                    return Err(fail("return-value", format!("insert returned {r:?}, reference {m:?}")));
                }
            }
            "remove" => {
                let r = hs[h].real.remove(&op.k);
                let m = hs[h].model.remove(&op.k);
                if r != m {
                    return Err(fail("return-value", format!("remove returned {r:?}, reference {m:?}")));
                }
            }
            "get" => {
                mutating = false;
                target = None;
                let r = hs[h].real.get(&op.k).copied();
                let m = hs[h].model.get(&op.k).copied();
                if r != m {
                    return Err(fail("return-value", format!("get returned {r:?}, reference {m:?}")));
                }
                if hs[h].real.contains_key(&op.k) != m.is_some() {
                    return Err(fail("return-value", "contains_key disagrees".into()));
                }
            }
            "get_mut" => {
                let hd = &mut hs[h];
                let r = hd.real.get_mut(&op.k);
                let m = hd.model.get_mut(&op.k);
                match (r, m) {
                    (Some(r), Some(m)) => {
                        if *r != *m {
                            return Err(fail("return-value", format!("get_mut sees {r}, reference {m}")));
                        }
                        *r = op.v;
                        *m = op.v;
                        info.get_mut_writes += 1;
                    }
                    (None, None) => {}
                    (r, m) => {
                        return Err(fail("return-value", format!("get_mut returned {r:?}, reference {m:?}")));
                    }
                }
            }
            "entry_or_insert" | "entry_or_insert_with" => {
                let hd = &mut hs[h];
                let r: &mut u64 = if op.op == "entry_or_insert" {
                    hd.real.entry(op.k).or_insert(op.v)
                } else {
                    hd.real.entry(op.k).or_insert_with(|| op.v)
                };
                let m = hd.model.entry(op.k).or_insert(op.v);
                if *r != *m {
                    return Err(fail("return-value", format!("entry().or_insert gives {r}, reference {m}")));
                }
                if op.aux % 2 == 0 {
                    *r = op.v + 1;
                    *m = op.v + 1;
                }
            }
            "entry_match" => {
                let hd = &mut hs[h];
                let present = hd.model.contains_key(&op.k);
                match hd.real.entry(op.k) {
                    Entry::Occupied(mut e) => {
                        info.entry_occupied += 1;
                        if !present {
                            return Err(fail("return-value", "entry is Occupied, reference has no such key".into()));
                        }
                        match op.aux % 3 {
                            0 => {
                                let r = e.get_mut();
                                let m = hd.model.get_mut(&op.k).unwrap();
                                if *r != *m {
                                    return Err(fail("return-value", format!("Occupied::get_mut sees {r}, reference {m}")));
                                }
                                *r = op.v;
                                *m = op.v;
                            }
                            1 => {
                                let r = e.remove();
                                let m = hd.model.remove(&op.k).unwrap();
                                if r != m {
                                    return Err(fail("return-value", format!("Occupied::remove returned {r}, reference {m}")));
                                }
                            }
                            _ => {
                                let r = e.into_mut();
                                let m = hd.model.get_mut(&op.k).unwrap();
                                if *r != *m {
                                    return Err(fail("return-value", format!("Occupied::into_mut sees {r}, reference {m}")));
                                }
                                *r = op.v;
                                *m = op.v;
                            }
                        }
                    }
                    Entry::Vacant(e) => {
                        info.entry_vacant += 1;
                        if present {
                            return Err(fail("return-value", "entry is Vacant, reference has the key".into()));
                        }
                        let r = e.insert(op.v);
                        if *r != op.v {
                            return Err(fail("return-value", format!("Vacant::insert returned ref to {r}")));
                        }
                        hd.model.insert(op.k, op.v);
                        if op.aux % 2 == 1 {
                            *r = op.v + 2;
                            hd.model.insert(op.k, op.v + 2);
                        }
                    }
                }
            }
            "iter" => {
                mutating = false;
                target = None;
                // full comparison happens below for every handle; here: partial consumption
                let take = (op.aux as usize) % 5;
                let got: Vec<(u32, u64)> = hs[h].real.iter().take(take).map(|(k, v)| (k, *v)).collect();
                let want: Vec<(u32, u64)> = hs[h].model.iter().take(take).map(|(k, v)| (*k, *v)).collect();
                if got != want {
                    return Err(fail("content", format!("iter prefix {got:?}, reference {want:?}")));
                }
            }
            "iter_mut" => {
                let hd = &mut hs[h];
                let stop_after = if op.aux % 4 == 0 { usize::MAX } else { (op.aux as usize / 4) % 8 };
                let mut want = hd.model.iter_mut();
                let mut i = 0usize;
                for (k, v) in hd.real.iter_mut() {
                    if i >= stop_after {
                        break;
                    }
                    let (mk, mv) = match want.next() {
                        Some(x) => x,
                        None => return Err(fail("content", format!("iter_mut yields extra key {k}"))),
                    };
                    if k != *mk || *v != *mv {
                        return Err(fail("content", format!("iter_mut yields ({k}, {v}), reference ({mk}, {mv})")));
                    }
                    // (merge_fn's lowest bit is always set: decide on the next one)
                    if (merge_fn(op.v, k, 0, 0) >> 1) % 2 == 0 {
                        *v = op.v + 8 + i as u64;
                        *mv = op.v + 8 + i as u64;
                        info.iter_mut_writes += 1;
                    }
                    i += 1;
                }
                if stop_after == usize::MAX && want.next().is_some() {
                    return Err(fail("content", "iter_mut stopped before the reference was exhausted".into()));
                }
            }
            "clear" => {
                hs[h].real.clear();
                hs[h].model.clear();
            }
            "union" | "difference" => {
                let salt = op.v;
                let mut calls: Vec<(u32, u64, u64)> = Vec::new();
                let (real, model) = if op.op == "union" {
                    let real = hs[h].real.union(&hs[h2].real, |k, l, r| {
                        calls.push((*k, l, r));
                        merge_fn(salt, *k, l, r)
                    });
                    let mut model = hs[h].model.clone();
                    for (k, r) in hs[h2].model.iter() {
                        match model.get(k).copied() {
                            Some(l) => {
                                model.insert(*k, merge_fn(salt, *k, l, *r));
                            }
                            None => {
                                model.insert(*k, *r);
                            }
                        }
                    }
                    (real, model)
                } else {
                    let real = hs[h].real.difference(&hs[h2].real, |k, l, r| {
                        calls.push((*k, l, r));
                        filter_fn(salt, *k, l, r)
                    });
                    let mut model = BTreeMap::new();
                    for (k, l) in hs[h].model.iter() {
                        match hs[h2].model.get(k) {
                            Some(r) => {
                                if let Some(v) = filter_fn(salt, *k, *l, *r) {
                                    model.insert(*k, v);
                                }
                            }
                            None => {
                                model.insert(*k, *l);
                            }
                        }
                    }
                    (real, model)
                };
                info.callbacks += calls.len() as u64;
                // every callback invocation must have been handed (key, left value, right value)
                for (k, l, r) in &calls {
                    let wl = hs[h].model.get(k);
                    let wr = hs[h2].model.get(k);
                    if wl != Some(l) || wr != Some(r) {
                        return Err(fail(
                            "callback-order",
                            format!("callback got ({k}, {l}, {r}) but left has {wl:?} and right has {wr:?}"),
                        ));
                    }
                }
                let nh = Handle { real, model };
                if hs.len() < MAX_HANDLES && op.aux % 2 == 0 {
                    hs.push(nh);
                    target = Some(hs.len() - 1);
                } else {
                    let dst = (op.aux as usize / 2) % hs.len();
                    hs[dst] = nh;
                    target = Some(dst);
                }
                mutating = false;
            }
            "clone" => {
                mutating = false;
                target = None;
                if hs.len() < MAX_HANDLES {
                    let nh = Handle {
                        real: hs[h].real.clone(),
                        model: hs[h].model.clone(),
                    };
                    hs.push(nh);
                }
            }
            "drop" => {
                mutating = false;
                target = None;
                if hs.len() > 1 {
                    hs.remove(h);
                }
            }
            other => panic!("unknown op {other}"),
        }
        if mutating && shared_before {
            info.mutated_while_shared += 1;
        }
        for (i, hd) in hs.iter().enumerate() {
            let is_acting = target == Some(i);
            if let Err((class, message)) = check_handle(i, is_acting, hd, &mut info) {
                return Err(fail(&class, message));
            }
            info.max_len = info.max_len.max(hd.model.len());
        }
        info.max_handles = info.max_handles.max(hs.len());
    }
    // fingerprint of the final state of all handles
    let mut fp = Fnv::new();
    for hd in &hs {
        fp.u64(0xfeed);
        for (k, v) in hd.model.iter() {
            fp.u32(*k);
            fp.u64(*v);
        }
        fp.u64(hd.real.verif_shape().height as u64);
    }
    info.fingerprint = fp.finish();
    info.op_prefix_hash = prefix.finish();
    Ok(info)
}
