//! C18 (b): morphism_toposort under arrival schedules. A random multigraph's tuples
//! (obj / dom / cod) arrive in batches the way a close loop delivers them; after every batch the
//! function is called with "new = this batch, old = everything before", with everything new, with
//! everything old and with a random disjoint split, and compared with a DFS reference.

use eqlog_runtime::{morphism_toposort, PrefixTree1, PrefixTree2};
use simcore::{Fnv, Json, Rng};
use std::collections::{BTreeMap, BTreeSet};

/// One arriving tuple. kind 0: obj(a); 1: dom(m=a) = b; 2: cod(m=a) = b.
#[derive(Clone, Debug, PartialEq)]
pub struct Arrival {
    pub kind: u8,
    pub a: u32,
    pub b: u32,
    /// batch number (non-decreasing along the list)
    pub batch: u32,
    /// label used by the "random split" call: true = new
    pub coin: bool,
}

#[derive(Clone, Debug)]
pub struct Case {
    pub arrivals: Vec<Arrival>,
}

impl Case {
    pub fn to_json(&self) -> Json {
        Json::obj(vec![
            ("kind", Json::str("toposort")),
            (
                "arrivals",
                Json::Arr(
                    self.arrivals
                        .iter()
                        .map(|a| {
                            Json::Arr(vec![
                                Json::str(["obj", "dom", "cod"][a.kind as usize]),
                                Json::Int(a.a as i64),
                                Json::Int(a.b as i64),
                                Json::Int(a.batch as i64),
                                Json::Bool(a.coin),
                            ])
                        })
                        .collect(),
                ),
            ),
        ])
    }
    pub fn from_json(j: &Json) -> Option<Case> {
        let arrivals = j
            .get("arrivals")?
            .as_arr()?
            .iter()
            .map(|a| {
                let a = a.as_arr()?;
                let kind = match a.first()?.as_str()? {
                    "obj" => 0,
                    "dom" => 1,
                    "cod" => 2,
                    _ => return None,
                };
                Some(Arrival {
                    kind,
                    a: a.get(1)?.as_u64()? as u32,
                    b: a.get(2)?.as_u64()? as u32,
                    batch: a.get(3)?.as_u64()? as u32,
                    coin: a.get(4)?.as_bool()?,
                })
            })
            .collect::<Option<Vec<_>>>()?;
        Some(Case { arrivals })
    }

    /// A case is well-formed (could be produced by a generated model) when dom and cod are
    /// functional and every object mentioned by a dom/cod tuple has arrived no later than it.
    /// The minimiser only keeps well-formed candidates.
    pub fn well_formed(&self) -> bool {
        let mut objs: BTreeMap<u32, u32> = BTreeMap::new();
        let mut dom = BTreeSet::new();
        let mut cod = BTreeSet::new();
        let mut last_batch = 0;
        for a in &self.arrivals {
            if a.batch < last_batch {
                return false;
            }
            last_batch = a.batch;
            match a.kind {
                0 => {
                    if objs.insert(a.a, a.batch).is_some() {
                        return false;
                    }
                }
                1 => {
                    if !dom.insert(a.a) {
                        return false;
                    }
                }
                _ => {
                    if !cod.insert(a.a) {
                        return false;
                    }
                }
            }
        }
        // objects must be present when referenced (obj arrival batch <= referencing batch)
        for a in &self.arrivals {
            if a.kind != 0 {
                match objs.get(&a.b) {
                    Some(b) if *b <= a.batch => {}
                    _ => return false,
                }
            }
        }
        true
    }
}

pub fn gen_case(rng: &mut Rng) -> Case {
    let n_obj = rng.range(1, 7) as u32;
    let n_mor = rng.range(0, 9) as u32;
    let acyclic = rng.chance(1, 2);
    let n_batches = rng.range(1, 5) as u32;
    // object ids and morphism ids are drawn from disjoint-looking but arbitrary ranges; they are
    // different sorts, so overlapping numbers are legal and occur
    let obj_ids: Vec<u32> = {
        let mut ids: Vec<u32> = (0..n_obj + 3).collect();
        rng.shuffle(&mut ids);
        ids.truncate(n_obj as usize);
        ids
    };
    let mut arrivals: Vec<Arrival> = Vec::new();
    let mut obj_batch: BTreeMap<u32, u32> = BTreeMap::new();
    for o in &obj_ids {
        let b = rng.below(n_batches as u64) as u32;
        obj_batch.insert(*o, b);
        arrivals.push(Arrival {
            kind: 0,
            a: *o,
            b: 0,
            batch: b,
            coin: rng.chance(1, 2),
        });
    }
    for m in 0..n_mor {
        let i = rng.usize_below(obj_ids.len());
        let j = rng.usize_below(obj_ids.len());
        let (d, c) = if acyclic {
            // edges go upwards in the (shuffled) object order: no cycle, no self-loop
            if i == j {
                (None, None)
            } else {
                (Some(obj_ids[i.min(j)]), Some(obj_ids[i.max(j)]))
            }
        } else {
            (Some(obj_ids[i]), Some(obj_ids[j]))
        };
        let has_dom = rng.chance(5, 6);
        let has_cod = rng.chance(5, 6);
        if let (Some(d), true) = (d, has_dom) {
            let lo = obj_batch[&d];
            arrivals.push(Arrival {
                kind: 1,
                a: m,
                b: d,
                batch: rng.range(lo as u64, (n_batches - 1) as u64) as u32,
                coin: rng.chance(1, 2),
            });
        }
        if let (Some(c), true) = (c, has_cod) {
            let lo = obj_batch[&c];
            arrivals.push(Arrival {
                kind: 2,
                a: m,
                b: c,
                batch: rng.range(lo as u64, (n_batches - 1) as u64) as u32,
                coin: rng.chance(1, 2),
            });
        }
    }
    rng.shuffle(&mut arrivals);
    arrivals.sort_by_key(|a| a.batch);
    Case { arrivals }
}

#[derive(Debug, Clone)]
pub struct Fail {
    pub class: String,
    pub message: String,
}

#[derive(Default, Debug, Clone)]
pub struct RunInfo {
    pub calls: u64,
    pub cyclic_states: u64,
    pub acyclic_states: u64,
    pub max_morphisms: usize,
    pub partial_morphisms: u64,
    pub fingerprint: u64,
}

struct Tables {
    dom: [PrefixTree2; 2], // [new, old], ordered (obj, mor)
    cod: [PrefixTree2; 2], // ordered (mor, obj)
    obj: [PrefixTree1; 2],
}

fn tables(arrivals: &[Arrival], is_new: &dyn Fn(&Arrival) -> bool) -> Tables {
    let mut t = Tables {
        dom: [PrefixTree2::new(), PrefixTree2::new()],
        cod: [PrefixTree2::new(), PrefixTree2::new()],
        obj: [PrefixTree1::new(), PrefixTree1::new()],
    };
    for a in arrivals {
        let i = if is_new(a) { 0 } else { 1 };
        match a.kind {
            0 => {
                t.obj[i].insert([a.a]);
            }
            1 => {
                t.dom[i].insert([a.b, a.a]);
            }
            _ => {
                t.cod[i].insert([a.a, a.b]);
            }
        }
    }
    t
}

/// Reference: the morphisms with both ends, and whether they contain a directed cycle.
fn reference(arrivals: &[Arrival]) -> (BTreeSet<(u32, u32, u32)>, bool) {
    let mut dom = BTreeMap::new();
    let mut cod = BTreeMap::new();
    for a in arrivals {
        match a.kind {
            1 => {
                dom.insert(a.a, a.b);
            }
            2 => {
                cod.insert(a.a, a.b);
            }
            _ => {}
        }
    }
    let mut full = BTreeSet::new();
    let mut succ: BTreeMap<u32, Vec<u32>> = BTreeMap::new();
    for (m, d) in &dom {
        if let Some(c) = cod.get(m) {
            full.insert((*m, *d, *c));
            succ.entry(*d).or_default().push(*c);
        }
    }
    // DFS cycle detection (colours: 0 white, 1 grey, 2 black)
    let mut colour: BTreeMap<u32, u8> = BTreeMap::new();
    fn visit(n: u32, succ: &BTreeMap<u32, Vec<u32>>, colour: &mut BTreeMap<u32, u8>) -> bool {
        match colour.get(&n).copied().unwrap_or(0) {
            1 => return true,
            2 => return false,
            _ => {}
        }
        colour.insert(n, 1);
        if let Some(ss) = succ.get(&n) {
            for s in ss {
                if visit(*s, succ, colour) {
                    return true;
                }
            }
        }
        colour.insert(n, 2);
        false
    }
    let nodes: Vec<u32> = succ.keys().copied().collect();
    let mut cyclic = false;
    for n in nodes {
        if visit(n, &succ, &mut colour) {
            cyclic = true;
            break;
        }
    }
    (full, cyclic)
}

pub fn exec(case: &Case) -> Result<RunInfo, Fail> {
    let mut info = RunInfo::default();
    let mut fp = Fnv::new();
    let max_batch = case.arrivals.last().map(|a| a.batch).unwrap_or(0);
    for batch in 0..=max_batch {
        let upto: Vec<Arrival> = case.arrivals.iter().filter(|a| a.batch <= batch).cloned().collect();
        let (full, cyclic) = reference(&upto);
        info.max_morphisms = info.max_morphisms.max(full.len());
        if cyclic {
            info.cyclic_states += 1;
        } else {
            info.acyclic_states += 1;
        }
        let n_mor: BTreeSet<u32> = upto.iter().filter(|a| a.kind != 0).map(|a| a.a).collect();
        info.partial_morphisms += (n_mor.len() - full.len()) as u64;
        let splits: [(&str, Box<dyn Fn(&Arrival) -> bool>); 4] = [
            ("batch-new", Box::new(move |a: &Arrival| a.batch == batch)),
            ("all-new", Box::new(|_| true)),
            ("all-old", Box::new(|_| false)),
            ("coin", Box::new(|a: &Arrival| a.coin)),
        ];
        for (name, is_new) in splits.iter() {
            let t = tables(&upto, is_new.as_ref());
            info.calls += 1;
            let res = morphism_toposort(&t.dom[0], &t.dom[1], &t.cod[0], &t.cod[1], &t.obj[1], &t.obj[0]);
            let ctx = |m: String| Fail {
                class: String::new(),
                message: format!("after batch {batch}, split {name}: {m}"),
            };
            match res {
                Err(_) => {
                    if !cyclic {
                        let mut f = ctx(format!("cycle reported but the {} morphisms with both ends are acyclic", full.len()));
                        f.class = "spurious-cycle".into();
                        return Err(f);
                    }
                }
                Ok(order) => {
                    if cyclic {
                        let mut f = ctx("Ok returned although the morphisms contain a directed cycle".into());
                        f.class = "missed-cycle".into();
                        return Err(f);
                    }
                    let got: Vec<(u32, u32, u32)> = order.iter().map(|m| (m.morph, m.dom, m.cod)).collect();
                    let got_set: BTreeSet<(u32, u32, u32)> = got.iter().copied().collect();
                    if got_set != full || got.len() != full.len() {
                        let mut f = ctx(format!("returned {got:?}, expected exactly (each once) {full:?}"));
                        f.class = "wrong-morphisms".into();
                        return Err(f);
                    }
                    // f: A -> B must precede g: B -> C
                    for (i, (m1, d1, _)) in got.iter().enumerate() {
                        for (m2, _, c2) in got.iter().skip(i + 1) {
                            if c2 == d1 {
                                let mut f = ctx(format!(
                                    "morphism {m2} into object {c2} comes after morphism {m1} out of it: {got:?}"
                                ));
                                f.class = "not-topological".into();
                                return Err(f);
                            }
                        }
                    }
                    fp.u64(got.len() as u64);
                }
            }
        }
        for (m, d, c) in &full {
            fp.u32(*m);
            fp.u32(*d);
            fp.u32(*c);
        }
        fp.u32(cyclic as u32);
    }
    info.fingerprint = fp.finish();
    Ok(info)
}
