//! rtsim: the runtime containers of eqlog-runtime under seeded multi-handle histories.
//! Serves C08 (prefix trees), C14 (weight-balanced map) and the arrival-schedule half of C18.

mod mapsim;
mod ptsim;
mod toposim;

use simcore::cli::{parse_args, Cmd, ShardStats, WorkerArgs};
use simcore::minimize::ddmin;
use simcore::rng::derive_seed;
use simcore::{Fnv, Json, Rng, Violation};
use std::panic::{catch_unwind, AssertUnwindSafe};

const ENGINE: &str = "rtsim";

/// Outcome of executing one explicit case: None = held, Some((class, message)) = violated.
fn run_case(kind: &str, case: &Json) -> Result<Option<(String, String)>, String> {
    let res = match kind {
        "map" => {
            let c = mapsim::Case::from_json(case).ok_or("bad map case")?;
            catch_unwind(AssertUnwindSafe(|| mapsim::exec(&c).err().map(|f| (f.class, f.message))))
        }
        "prefix_tree" => {
            let c = ptsim::Case::from_json(case).ok_or("bad prefix_tree case")?;
            catch_unwind(AssertUnwindSafe(|| ptsim::exec_dyn(&c).err().map(|f| (f.class, f.message))))
        }
        "toposort" => {
            let c = toposim::Case::from_json(case).ok_or("bad toposort case")?;
            if !c.well_formed() {
                return Err("toposort case is not well-formed".into());
            }
            catch_unwind(AssertUnwindSafe(|| toposim::exec(&c).err().map(|f| (f.class, f.message))))
        }
        other => return Err(format!("unknown case kind {other}")),
    };
    Ok(match res {
        Ok(r) => r,
        Err(p) => Some(("panic".to_string(), panic_message(&p))),
    })
}

fn panic_message(p: &Box<dyn std::any::Any + Send>) -> String {
    if let Some(s) = p.downcast_ref::<&str>() {
        s.to_string()
    } else if let Some(s) = p.downcast_ref::<String>() {
        s.clone()
    } else {
        "non-string panic payload".to_string()
    }
}

fn outcome_hash(case: &Json, outcome: &Option<(String, String)>) -> u64 {
    let mut h = Fnv::new();
    h.str(&case.to_string());
    match outcome {
        None => h.str("held"),
        Some((c, m)) => {
            h.str(c);
            h.str(m);
        }
    }
    h.finish()
}

fn same_class(kind: &str, case: &Json, class: &str) -> bool {
    matches!(run_case(kind, case), Ok(Some((c, _))) if c == class)
}

fn minimise(kind: &str, case: &Json, class: &str) -> Json {
    let mut budget = 3000usize;
    match kind {
        "map" => {
            let c = mapsim::Case::from_json(case).unwrap();
            let ops = ddmin(c.ops, &mut budget, &mut |ops| {
                same_class(kind, &mapsim::Case { ops: ops.to_vec() }.to_json(), class)
            });
            mapsim::Case { ops }.to_json()
        }
        "prefix_tree" => {
            let c = ptsim::Case::from_json(case).unwrap();
            let (arity, universe) = (c.arity, c.universe);
            let ops = ddmin(c.ops, &mut budget, &mut |ops| {
                same_class(
                    kind,
                    &ptsim::Case {
                        arity,
                        universe,
                        ops: ops.to_vec(),
                    }
                    .to_json(),
                    class,
                )
            });
            ptsim::Case { arity, universe, ops }.to_json()
        }
        "toposort" => {
            let c = toposim::Case::from_json(case).unwrap();
            let arrivals = ddmin(c.arrivals, &mut budget, &mut |arr| {
                let cand = toposim::Case { arrivals: arr.to_vec() };
                cand.well_formed() && same_class(kind, &cand.to_json(), class)
            });
            toposim::Case { arrivals }.to_json()
        }
        _ => case.clone(),
    }
}

fn report(stats: &mut ShardStats, prop: &str, kind: &str, seed: u64, run_index: u64, case: Json, class: String) -> bool {
    if stats.has_class(prop, &class) {
        return false;
    }
    let min_case = minimise(kind, &case, &class);
    let outcome = run_case(kind, &min_case).ok().flatten();
    let (class2, message) = outcome.clone().unwrap_or((class.clone(), "lost during minimisation".into()));
    let log_hash = outcome_hash(&min_case, &outcome);
    stats.violation(Violation {
        property: prop.to_string(),
        class: class2,
        message,
        seed,
        run_index,
        case: min_case,
        log_hash,
    })
}

fn run_worker(args: &WorkerArgs) -> ShardStats {
    let mut stats = ShardStats::new();
    let thorough = args.tier == "thorough";
    let (default_runs, stream): (u64, u64) = match args.prop.as_str() {
        "C14" => (if thorough { 120_000_000 } else { 1_600_000 }, 14),
        "C08" => (if thorough { 48_000_000 } else { 400_000 }, 8),
        "C18" => (if thorough { 80_000_000 } else { 800_000 }, 18),
        p => panic!("rtsim does not serve {p}"),
    };
    let runs = args.get_u64("runs", default_runs);
    match args.prop.as_str() {
        "C14" => {
            for p in ["mutated_while_shared", "callbacks", "iter_mut_writes", "get_mut_writes", "entry_occupied", "entry_vacant", "long_runs", "max_len_ge_64", "clone_family_ge_3"] {
                stats.declare_probe(p);
            }
            stats.declare_fault("handle_drop");
            stats.declare_fault("handle_clone");
        }
        "C08" => {
            for p in ["restriction_op_nonempty", "prefix_emptied", "shared_operand_used", "mapped_dropped_tuple", "arity_ge_4"] {
                stats.declare_probe(p);
            }
            stats.declare_fault("handle_drop");
            stats.declare_fault("handle_clone");
        }
        _ => {
            for p in ["cyclic_states", "acyclic_states", "partial_morphisms", "calls"] {
                stats.declare_probe(p);
            }
            stats.declare_fault("split_batch_new");
            stats.declare_fault("split_coin");
        }
    }
    let mut idx = args.shard;
    while idx < runs {
        let seed = derive_seed(args.seed, stream, idx);
        stats.run_seed(seed);
        let mut rng = Rng::new(seed);
        let (kind, case): (&str, Json) = match args.prop.as_str() {
            "C14" => {
                let long = rng.chance(1, 8);
                let knobs = mapsim::draw_knobs(&mut rng, long);
                let c = mapsim::gen_case(&mut rng, &knobs);
                if long {
                    stats.probe("long_runs");
                }
                // run directly on the typed case (cheap path); JSON only when needed
                let res = catch_unwind(AssertUnwindSafe(|| mapsim::exec(&c)));
                stats.fault_n("handle_drop", c.ops.iter().filter(|o| o.op == "drop").count() as u64);
                stats.fault_n("handle_clone", c.ops.iter().filter(|o| o.op == "clone").count() as u64);
                match res {
                    Ok(Ok(info)) => {
                        stats.steps += info.steps;
                        stats.probe_n("mutated_while_shared", info.mutated_while_shared);
                        stats.probe_n("callbacks", info.callbacks);
                        stats.probe_n("iter_mut_writes", info.iter_mut_writes);
                        stats.probe_n("get_mut_writes", info.get_mut_writes);
                        stats.probe_n("entry_occupied", info.entry_occupied);
                        stats.probe_n("entry_vacant", info.entry_vacant);
                        if info.max_len >= 64 {
                            stats.probe("max_len_ge_64");
                        }
                        if info.max_handles >= 3 {
                            stats.probe("clone_family_ge_3");
                        }
                        if info.mutated_while_shared > 0 {
                            stats.nontrivial(info.fingerprint);
                            if stats.want_sample() {
                                stats.sample(c.to_json());
                            }
                        }
                        idx += args.nshards;
                        continue;
                    }
                    _ => ("map", c.to_json()),
                }
            }
            "C08" => {
                let knobs = ptsim::draw_knobs(&mut rng);
                let c = ptsim::gen_case(&mut rng, &knobs);
                let res = catch_unwind(AssertUnwindSafe(|| ptsim::exec_dyn(&c)));
                stats.fault_n("handle_drop", c.ops.iter().filter(|o| o.op == "drop" || o.op == "sub_drop").count() as u64);
                stats.fault_n("handle_clone", c.ops.iter().filter(|o| o.op == "clone" || o.op == "sub_from_get").count() as u64);
                match res {
                    Ok(Ok(info)) => {
                        stats.steps += info.steps;
                        stats.probe_n("restriction_op_nonempty", info.restriction_ops_nonempty);
                        stats.probe_n("prefix_emptied", info.restriction_emptied_prefix);
                        stats.probe_n("shared_operand_used", info.shared_sub_used);
                        stats.probe_n("mapped_dropped_tuple", info.mapped_dropped);
                        if c.arity >= 4 {
                            stats.probe("arity_ge_4");
                        }
                        if info.max_tuples >= 2 && info.max_handles >= 2 {
                            stats.nontrivial(info.fingerprint);
                            if stats.want_sample() && info.restriction_ops_nonempty > 0 {
                                stats.sample(c.to_json());
                            }
                        }
                        idx += args.nshards;
                        continue;
                    }
                    _ => ("prefix_tree", c.to_json()),
                }
            }
            _ => {
                let c = toposim::gen_case(&mut rng);
                let res = catch_unwind(AssertUnwindSafe(|| toposim::exec(&c)));
                match res {
                    Ok(Ok(info)) => {
                        stats.steps += info.calls;
                        stats.probe_n("cyclic_states", info.cyclic_states);
                        stats.probe_n("acyclic_states", info.acyclic_states);
                        stats.probe_n("partial_morphisms", info.partial_morphisms);
                        stats.probe_n("calls", info.calls);
                        stats.fault_n("split_batch_new", info.calls / 4);
                        stats.fault_n("split_coin", info.calls / 4);
                        if info.max_morphisms >= 2 {
                            stats.nontrivial(info.fingerprint);
                            if stats.want_sample() {
                                stats.sample(c.to_json());
                            }
                        }
                        idx += args.nshards;
                        continue;
                    }
                    _ => ("toposort", c.to_json()),
                }
            }
        };
        // slow path: the run failed (or panicked); classify through the JSON case so that what
        // is minimised and reported is exactly what replay will execute
        match run_case(kind, &case) {
            Ok(Some((class, _))) => {
                if report(&mut stats, &args.prop, kind, seed, idx, case, class) {
                    break;
                }
            }
            Ok(None) => stats.diagnostics.push(format!("run {idx}: failure did not reproduce from its JSON case")),
            Err(e) => stats.diagnostics.push(format!("run {idx}: {e}")),
        }
        idx += args.nshards;
    }
    stats
}

fn main() {
    std::panic::set_hook(Box::new(|_| {}));
    match parse_args() {
        Ok(Cmd::Run(args)) => {
            let stats = run_worker(&args);
            if let Err(e) = stats.write(&args, ENGINE) {
                eprintln!("cannot write results: {e}");
                std::process::exit(2);
            }
            if !stats.diagnostics.is_empty() {
                std::process::exit(2);
            }
        }
        Ok(Cmd::Replay { file, .. }) => {
            let text = match std::fs::read_to_string(&file) {
                Ok(t) => t,
                Err(e) => {
                    eprintln!("cannot read {file}: {e}");
                    std::process::exit(2);
                }
            };
            let j = match Json::parse(&text) {
                Ok(j) => j,
                Err(e) => {
                    eprintln!("cannot parse {file}: {e}");
                    std::process::exit(2);
                }
            };
            let case = j.get("case").cloned().unwrap_or(Json::Null);
            let kind = case.get("kind").and_then(|k| k.as_str()).unwrap_or("").to_string();
            match run_case(&kind, &case) {
                Ok(outcome) => {
                    let h = outcome_hash(&case, &outcome);
                    match outcome {
                        Some((class, message)) => {
                            println!(
                                "{}",
                                Json::obj(vec![
                                    ("replayed", Json::Bool(true)),
                                    ("class", Json::str(&class)),
                                    ("message", Json::str(&message)),
                                    ("log_hash", Json::str(&format!("{h:016x}"))),
                                ])
                                .to_string()
                            );
                            std::process::exit(1);
                        }
                        None => {
                            println!(
                                "{}",
                                Json::obj(vec![("replayed", Json::Bool(false)), ("log_hash", Json::str(&format!("{h:016x}")))])
                                    .to_string()
                            );
                            std::process::exit(0);
                        }
                    }
                }
                Err(e) => {
                    eprintln!("harness error: {e}");
                    std::process::exit(2);
                }
            }
        }
        Err(e) => {
            eprintln!("{e}");
            std::process::exit(2);
        }
    }
}
