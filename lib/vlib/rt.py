"""rtsim: C08, C14, C18(b)."""
import os
import subprocess
import sys

from . import main as M

BIN = os.path.join(M.TARGET, "debug", "rtsim")


def setup():
    M.cargo_build(["rtsim"], "build-rtsim.log")


def run(prop, tier, seed, spec, t0):
    M.cargo_build(["rtsim"], "build-rtsim.log")
    outdir = os.path.join(M.WORK, "%s-%s" % (prop, tier))
    extra = []
    if os.environ.get("VERIF_RUNS"):
        extra = ["--runs", os.environ["VERIF_RUNS"]]
    results = M.run_shards(BIN, prop, tier, seed, outdir, extra)
    if prop == "C18":
        # the model-level half: toposort on the tables a real close loop produces (modelsim)
        from . import model
        mres, mdir, mbin, mcov, _ = model.run_shards(prop, tier, seed, suffix="-model")
        return M.finish(prop, tier, seed, spec, results + mres, outdir, {"rtsim": BIN, "modelsim": mbin}, t0,
                        extra_cov={"model_level": mcov}, extra_fp_dirs=[mdir])
    return M.finish(prop, tier, seed, spec, results, outdir, BIN, t0)


def replay(path, v):
    M.cargo_build(["rtsim"], "build-rtsim.log")
    proc = subprocess.run([BIN, "replay", path], capture_output=True, text=True)
    sys.stdout.write(proc.stdout)
    sys.stderr.write(proc.stderr)
    return proc.returncode
