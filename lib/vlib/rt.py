"""rtsim: C08, C14, C18(b)."""
import os
import subprocess
import sys

from . import main as M

BIN = os.path.join(M.TARGET, "debug", "rtsim")


def setup():
    M.cargo_build(["rtsim"], "build-rtsim.log")


def miri_sample(prop, seed):
    """Side observation, thorough tier only: a few seeded histories of the same simulator under
    Miri (Tree Borrows), which watches the `unsafe` in IterMut and the Rc-based copy-on-write for
    aliasing violations and use-after-free. It decides none of the listed properties (no property
    speaks of undefined behaviour); what it reports is recorded in the evidence and printed as a
    DIAGNOSTIC line, and never changes the exit code."""
    import shutil
    import tempfile
    if not shutil.which("cargo"):
        return {"status": "cargo not found"}
    out = tempfile.mkdtemp(prefix="miri-", dir="/dev/shm" if os.path.isdir("/dev/shm") else None)
    env = M.cargo_env()
    env["CARGO_TARGET_DIR"] = os.path.join(M.TARGET, "miri")
    env["MIRIFLAGS"] = "-Zmiri-disable-isolation -Zmiri-tree-borrows"
    runs = {"C14": "60", "C08": "25"}.get(prop, "20")
    cmd = ["cargo", "+nightly", "miri", "run", "-p", "rtsim", "--offline", "--", "run", "--prop", prop, "--tier", "quick",
           "--seed", str(seed), "--shard", "0", "--nshards", "1", "--out", out, "--runs", runs]
    try:
        proc = subprocess.run(cmd, cwd=M.VERIF, env=env, capture_output=True, text=True, timeout=1500)
    except (subprocess.TimeoutExpired, OSError) as e:
        shutil.rmtree(out, ignore_errors=True)
        return {"status": "not run: %s" % type(e).__name__}
    ub = [l for l in proc.stderr.splitlines() if "Undefined Behavior" in l]
    ok = os.path.exists(os.path.join(out, "shard-0.json"))
    shutil.rmtree(out, ignore_errors=True)
    if ub:
        M.log("DIAGNOSTIC miri (tree borrows) reports undefined behaviour in %s histories: %s" % (prop, ub[0][:300]))
    return {"status": "ran" if ok or ub else "miri did not finish (exit %s)" % proc.returncode, "aliasing_model": "tree borrows",
            "histories": int(runs), "undefined_behaviour_reported": bool(ub), "first_report": ub[0][:300] if ub else None,
            "note": ("under the stricter Stacked Borrows model Miri flags IterMut::next (eqlog-runtime/src/wbtree/map.rs, "
                     "`&mut *data_node_ptr` after `descend_left` retagged the node): recorded in DESIGN.md as a side observation")}


def run(prop, tier, seed, spec, t0):
    M.cargo_build(["rtsim"], "build-rtsim.log")
    outdir = os.path.join(M.WORK, "%s-%s" % (prop, tier))
    extra = []
    if os.environ.get("VERIF_RUNS"):
        extra = ["--runs", os.environ["VERIF_RUNS"]]
    results = M.run_shards(BIN, prop, tier, seed, outdir, extra)
    if prop == "C18":
        # the model-level half: toposort on the tables a real close loop produces (modelsim)
        from . import model
        mres, mdir, mbin, mcov, _ = model.run_shards(prop, tier, seed, suffix="-model")
        return M.finish(prop, tier, seed, spec, results + mres, outdir, {"rtsim": BIN, "modelsim": mbin}, t0,
                        extra_cov={"model_level": mcov}, extra_fp_dirs=[mdir])
    extra_cov = None
    if tier == "thorough" and prop in ("C14", "C08") and not os.environ.get("VERIF_NO_MIRI"):
        extra_cov = {"miri_side_observation": miri_sample(prop, seed)}
    return M.finish(prop, tier, seed, spec, results, outdir, BIN, t0, extra_cov=extra_cov)


def replay(path, v):
    M.cargo_build(["rtsim"], "build-rtsim.log")
    proc = subprocess.run([BIN, "replay", path], capture_output=True, text=True)
    sys.stdout.write(proc.stdout)
    sys.stderr.write(proc.stderr)
    return proc.returncode
