"""Top level of ./check: dispatch, sharded execution, merge, replay confirmation,
known-findings filter, evidence."""
import json
import os
import shutil
import struct
import subprocess
import sys
import time

from . import props, witness

VERIF = os.path.dirname(os.path.dirname(os.path.dirname(os.path.abspath(__file__))))
WORK = os.path.join(VERIF, "work")
REPLAYS = os.path.join(VERIF, "replays")
EVIDENCE = os.path.join(VERIF, "evidence")
TARGET = os.path.join(VERIF, "target")
NSHARDS = 16


class HarnessError(Exception):
    pass


def log(msg):
    print(msg, file=sys.stderr, flush=True)


REPO = os.environ.get("VERIF_REPO", "/repo")


def cargo_env():
    env = dict(os.environ)
    env["CARGO_NET_OFFLINE"] = "true"
    env["VERIF_DIR"] = VERIF
    env["VERIF_REPO"] = REPO
    env.pop("RUSTFLAGS", None)  # .cargo/config.toml carries --cfg eqlog_verif
    env.pop("CARGO_TARGET_DIR", None)
    return env


def cargo_build(packages, logname, cwd=VERIF, extra=()):
    """Rebuilds the given workspace packages from /repo's current working tree."""
    os.makedirs(WORK, exist_ok=True)
    logpath = os.path.join(WORK, logname)
    cmd = ["cargo", "build", "--offline"] + [a for p in packages for a in ("-p", p)] + list(extra)
    t0 = time.time()
    with open(logpath, "w") as f:
        rc = subprocess.call(cmd, cwd=cwd, env=cargo_env(), stdout=f, stderr=subprocess.STDOUT)
    if rc != 0:
        tail = open(logpath, errors="replace").read().splitlines()[-40:]
        raise HarnessError("cargo build failed (%s):\n%s" % (" ".join(cmd), "\n".join(tail)))
    log("[build] %s ok in %.1fs" % (" ".join(packages), time.time() - t0))


def run_shards(binary, prop, tier, seed, outdir, extra_args=(), nshards=NSHARDS, env=None):
    """Runs the shard processes; returns the list of shard result dicts."""
    if os.path.isdir(outdir):
        shutil.rmtree(outdir)
    os.makedirs(outdir)
    procs = []
    for i in range(nshards):
        cmd = [binary, "run", "--prop", prop, "--tier", tier, "--seed", str(seed), "--shard", str(i),
               "--nshards", str(nshards), "--out", outdir] + list(extra_args)
        out = open(os.path.join(outdir, "shard-%d.stdout" % i), "w")
        procs.append((i, subprocess.Popen(cmd, stdout=out, stderr=subprocess.STDOUT, env=env, cwd=outdir), out))
    results = []
    bad = []
    for i, p, out in procs:
        rc = p.wait()
        out.close()
        path = os.path.join(outdir, "shard-%d.json" % i)
        if rc != 0 or not os.path.exists(path):
            tail = open(os.path.join(outdir, "shard-%d.stdout" % i), errors="replace").read()[-2000:]
            diag = ""
            if os.path.exists(path):
                try:
                    diag = "; diagnostics: %s" % json.load(open(path)).get("diagnostics")
                except Exception:
                    pass
            bad.append("shard %d exited %s%s\n%s" % (i, rc, diag, tail))
            continue
        results.append(json.load(open(path)))
    if bad:
        raise HarnessError("worker failure:\n" + "\n".join(bad))
    return results


def merge_fingerprints(outdir, nshards=NSHARDS):
    fps = set()
    for i in range(nshards):
        path = os.path.join(outdir, "shard-%d.fp" % i)
        if not os.path.exists(path):
            continue
        data = open(path, "rb").read()
        fps.update(struct.unpack("<%dQ" % (len(data) // 8), data))
    return len(fps)


# counters that describe the (shared) workload rather than per-shard work: every shard reports the
# same number, so they are merged by max, not by sum
SHARED_COUNTERS = ("programs", "theories", "base_texts", "units_total", "images_total", "c04_max_index_copies_seen",
                   "c04_max_index_copies_per_relation")


def merge_counts(results, key):
    out = {}
    for r in results:
        for k, v in r.get(key, {}).items():
            if k in SHARED_COUNTERS:
                out[k] = max(out.get(k, 0), v)
            else:
                out[k] = out.get(k, 0) + v
    return dict(sorted(out.items()))


def confirm_replay(binary, violation, idx, env=None, extra_args=()):
    """Writes the replay file and re-executes it in a fresh process; the violation is reported
    only if class and message reproduce exactly."""
    os.makedirs(REPLAYS, exist_ok=True)
    name = "%s-%s-%d.json" % (violation["property"], ("%x" % (violation["seed"] & 0xFFFFFFFFFFFFFFFF)), idx)
    path = os.path.join(REPLAYS, name)
    with open(path, "w") as f:
        json.dump(violation, f, indent=1)
    proc = subprocess.run([binary, "replay", path] + list(extra_args), capture_output=True, text=True, env=env)
    if proc.returncode == 2:
        raise HarnessError("replay of %s failed: %s" % (path, proc.stderr[-2000:]))
    try:
        rep = json.loads(proc.stdout.strip().splitlines()[-1])
    except Exception:
        raise HarnessError("replay of %s printed no result: %r %r" % (path, proc.stdout[-500:], proc.stderr[-500:]))
    if not rep.get("replayed") or rep.get("class") != violation["class"] or rep.get("message") != violation["message"] \
            or rep.get("log_hash") != violation["log_hash"]:
        raise HarnessError("violation does not replay exactly: %s\n recorded: %s / %s / %s\n replayed: %s" % (
            path, violation["class"], violation["message"], violation["log_hash"], rep))
    return path


def load_known():
    path = os.path.join(VERIF, "known_findings.json")
    if not os.path.exists(path):
        return []
    return json.load(open(path)).get("known", [])


def classify(violation, known):
    """Returns the known-finding entry that lists this violation, or None."""
    import fnmatch
    for k in known:
        if k.get("property") != violation["property"]:
            continue
        if not fnmatch.fnmatchcase(violation["class"], k.get("class", "")):
            continue
        pred = witness.WITNESS.get(k.get("witness", ""))
        if pred is None:
            continue
        try:
            if pred(violation):
                return k
        except Exception:
            continue
    return None


def validate_evidence(ev):
    schema_path = "/root/.vp/EVIDENCE.schema.json"
    try:
        import jsonschema  # type: ignore
        if os.path.exists(schema_path):
            jsonschema.validate(ev, json.load(open(schema_path)))
            return
    except ImportError:
        pass
    for k in ("property_id", "tier", "seed", "level", "coverage", "wall_s"):
        if k not in ev:
            raise HarnessError("evidence lacks %s" % k)
    cov = ev["coverage"]
    if ev["level"] in ("exploration", "fault_enumeration"):
        if not (isinstance(cov.get("evaluations"), int) and cov["evaluations"] >= 1):
            raise HarnessError("evidence: evaluations")
        if not (isinstance(cov.get("distinct_nontrivial"), int) and cov["distinct_nontrivial"] >= 2):
            raise HarnessError("evidence: distinct_nontrivial < 2 (%r)" % cov.get("distinct_nontrivial"))
        if not isinstance(cov.get("rule"), str):
            raise HarnessError("evidence: rule")
        if not (isinstance(cov.get("samples"), list) and len(cov["samples"]) >= 1):
            raise HarnessError("evidence: samples")
    if ev["tier"] not in ("quick", "thorough"):
        raise HarnessError("evidence: tier")


def write_evidence(prop, ev):
    validate_evidence(ev)
    os.makedirs(EVIDENCE, exist_ok=True)
    with open(os.path.join(EVIDENCE, "%s.json" % prop), "w") as f:
        json.dump(ev, f, indent=1, sort_keys=False)
        f.write("\n")


def finish(prop, tier, seed, spec, results, outdir, binary, t0, replay_env=None, replay_args=(), extra_cov=None,
           extra_violations=(), extra_fp_dirs=None):
    """Merge shard results, confirm and classify violations, write evidence, print lines."""
    violations = []
    seen = set()
    for r in results:
        for v in r.get("violations", []):
            key = (v["property"], v["class"])
            if key in seen:
                continue
            seen.add(key)
            violations.append(v)
    for v in extra_violations:
        violations.append(v)
    known = load_known()
    known_seen = set()
    n_viol = 0
    lines = []
    for idx, v in enumerate(violations):
        if v.get("no_replay"):
            path = v["replay_path"]
        else:
            b = binary.get(v.get("engine")) if isinstance(binary, dict) else binary
            # a violation found with another corpus (thorough batches) replays against that corpus' binary
            b = v.pop("binary", None) or b
            path = confirm_replay(b, v, idx, env=replay_env, extra_args=replay_args)
        k = classify(v, known)
        if k is not None:
            if k["id"] not in known_seen:
                known_seen.add(k["id"])
                lines.append("KNOWN-FINDING: property=%s %s [%s; witness replay=%s]" % (v["property"], k["text"], k["id"], path))
        else:
            n_viol += 1
            lines.append("VIOLATION property=%s replay=%s" % (v["property"], path))
            lines.append("  class=%s: %s" % (v["class"], v["message"][:600]))
    evaluations = sum(r["evaluations"] for r in results)
    wall = time.time() - t0
    distinct = merge_fingerprints(outdir, NSHARDS)
    for d in (extra_fp_dirs or []):
        distinct += merge_fingerprints(d, NSHARDS)
    probes = merge_counts(results, "probes")
    faults = merge_counts(results, "faults_fired")
    counters = merge_counts(results, "counters")
    samples = []
    for r in results:
        for s in r.get("samples", []):
            if len(samples) < 5:
                samples.append(s)
    run_wall = max([r.get("wall_s", 0.0) for r in results] + [1e-9])
    cov = {
        "evaluations": evaluations,
        "distinct_nontrivial": distinct,
        "rule": spec["rule"],
        "samples": samples,
        "exhaustive": False,
        "nontrivial_runs": sum(r.get("nontrivial_runs", 0) for r in results),
        "fingerprints_saturated": any(r.get("fp_saturated") for r in results),
        "runs_per_hour": int(evaluations / run_wall * 3600),
        "seeds": {"master": seed, "first_run_seed": results[0]["first_seed"] if results else None,
                  "last_run_seed": results[-1]["last_seed"] if results else None,
                  "derivation": "splitmix64(master, stream, run index); xoshiro256** per run"},
        "logical_steps": sum(r.get("steps", 0) for r in results),
        "simulated_time": "none: the system under test reads no clock; progress is counted in logical steps",
        "faults_fired": faults,
        "probes": probes,
        "counters": counters,
        "probes_stuck_at_zero": [k for k, v in probes.items() if v == 0],
        "real_components": spec["real"],
        "stub_components": spec["stub"],
        "shards": len(results),
    }
    if extra_cov:
        cov.update(extra_cov)
    ev = {
        "property_id": prop,
        "tier": tier,
        "seed": seed,
        "level": spec["level"],
        "coverage": cov,
        "assumptions": spec["assumptions"],
        "wall_s": round(wall, 2),
        "violations": n_viol,
        "known_findings_seen": [l for l in lines if l.startswith("KNOWN-FINDING")],
    }
    write_evidence(prop, ev)
    for k in cov["probes_stuck_at_zero"]:
        log("[warn] probe %s stuck at 0" % k)
    for l in lines:
        print(l)
    log("[%s %s] evaluations=%d distinct_nontrivial=%d violations=%d wall=%.1fs" % (
        prop, tier, evaluations, distinct, n_viol, wall))
    sys.stdout.flush()
    return 1 if n_viol else 0


def seed_from_env():
    try:
        return int(os.environ.get("VERIF_SEED", "1"))
    except ValueError:
        return 1


def cmd_check(prop, tier):
    spec = props.PROPS.get(prop)
    if spec is None:
        raise HarnessError("unknown or not-applicable property %s" % prop)
    seed = seed_from_env()
    t0 = time.time()
    mod = __import__("vlib." + spec["module"], fromlist=["x"])
    return mod.run(prop, tier, seed, spec, t0)


def cmd_replay(path):
    v = json.load(open(path))
    engine = v.get("engine")
    mod = {"rtsim": "rt", "buildsim": "build", "modelsim": "model"}.get(engine)
    if mod is None:
        raise HarnessError("replay file names no engine")
    m = __import__("vlib." + mod, fromlist=["x"])
    return m.replay(path, v)


def cmd_setup():
    t0 = time.time()
    for name in ("rt", "build", "model"):
        try:
            m = __import__("vlib." + name, fromlist=["x"])
        except ImportError:
            continue
        m.setup()
    log("[setup] done in %.0fs" % (time.time() - t0))
    return 0


def main(argv):
    try:
        if not argv:
            print(__doc__)
            return 2
        if argv[0] == "setup":
            return cmd_setup()
        if argv[0] == "list":
            for k, v in sorted(props.PROPS.items()):
                print(k, v["module"], v["level"])
            return 0
        if argv[0] == "replay":
            return cmd_replay(argv[1])
        if argv[0] == "selftest":
            from . import selftest
            return selftest.run(argv[1:])
        prop = argv[0]
        tier = argv[1] if len(argv) > 1 else os.environ.get("VERIF_TIER", "quick")
        if tier not in ("quick", "thorough"):
            raise HarnessError("tier must be quick or thorough")
        return cmd_check(prop, tier)
    except HarnessError as e:
        print("HARNESS-ERROR: %s" % e, file=sys.stderr)
        return 2
