"""Witness predicates for known findings: a violation is suppressed to a KNOWN-FINDING line
only if its class matches and the predicate named in known_findings.json holds on the
minimised case. Everything else is reported."""

WITNESS = {}


def witness(name):
    def deco(f):
        WITNESS[name] = f
        return f
    return deco


@witness("c17_late_structure")
def c17_late_structure(v):
    """Known finding C17/KF-1: inherited tuples that first become visible in an `old` copy never
    fire rules. It needs structure (dom / cod, or the constants they are derived from by rules)
    to arrive after a member fact had a chance to age: a close() between a fact and a dom / cod
    assertion, or dom / cod derived by rules."""
    if "/late-structure" not in v["class"]:
        return False
    if "/late-structure-derived-merge" in v["class"]:
        # the harness observed, in this very run, that a close() identified objects, morphisms or
        # member elements (by a rule or by single-valuedness): their dom / cod / application rows
        # are rewritten while member facts are already old
        return True
    ops = v.get("case", {}).get("ops_readable", [])
    if any(o.startswith(("insert_oa(", "insert_ob(", "insert_fm(")) for o in ops):
        return True
    fact_seen = aged = False
    for o in ops:
        # structure: dom / cod / morphism application rows, and identifications of objects,
        # morphisms or member elements (they rewrite those rows)
        if o.startswith(("insert_mo_mor_dom(", "insert_mo_mor_cod(", "insert_el_mor_app(", "equate_mo(", "equate_mo_mor(", "equate_el(")):
            if aged:
                return True
        elif o.startswith("insert_"):
            fact_seen = True
        elif o.startswith("close"):
            aged = aged or fact_seen
    return False


def _has_member_type(v):
    src = v.get("case", {}).get("source", "")
    return "model " in src and "\n    type " in src


@witness("c17_unmapped_order")
def c17_unmapped_order(v):
    """Known finding C17/KF-2: an index copy of a member relation whose column order puts a
    member-typed column before the model column is recomputed without mapping that column
    (TODO in display_recompute_model_indices_fn). The harness tags a violation with
    /unmapped-order only when, during that very run, such a copy was observed to differ from the
    model-first copy of the same relation and age."""
    return v["class"].endswith("/unmapped-order") and _has_member_type(v)


@witness("c17_diagonal_copy")
def c17_diagonal_copy(v):
    """Known finding C17/KF-3: the diagonal-restricted `all` copy of a member relation is computed
    from the diagonal copy of the domain, so a tuple that becomes diagonal only under a
    non-injective morphism application never enters it. Tagged /diagonal-copy only when, during
    that very run, a diagonal copy was observed to differ from the diagonal of the plain copy."""
    return v["class"].endswith("/diagonal-copy") and _has_member_type(v)


@witness("c05_member_duplicate")
def c05_member_duplicate(v):
    """Known finding C05/KF-3: the iterator of a member relation lists a tuple twice in a state
    that is not closed. The class is given by the harness only when the iterator's set of tuples is
    right and only its multiplicity is wrong, for a relation declared inside a model block."""
    src = v.get("case", {}).get("source", "")
    return v["class"].startswith("iter-duplicate/member-relation") and "model " in src
