"""Witness predicates for known findings: a violation is suppressed to a KNOWN-FINDING line
only if its class matches and the predicate named in known_findings.json holds on the
minimised case. Everything else is reported."""

WITNESS = {}


def witness(name):
    def deco(f):
        WITNESS[name] = f
        return f
    return deco
