"""Witness predicates for known findings: a violation is suppressed to a KNOWN-FINDING line
only if its class matches and the predicate named in known_findings.json holds on the
minimised case. Everything else is reported."""

WITNESS = {}


def witness(name):
    def deco(f):
        WITNESS[name] = f
        return f
    return deco


@witness("c17_late_structure")
def c17_late_structure(v):
    """Known finding C17/KF-1: inherited tuples that first become visible in an `old` copy never
    fire rules. It needs structure (dom / cod, or the constants they are derived from by rules)
    to arrive after a member fact had a chance to age: a close() between a fact and a dom / cod
    assertion, or dom / cod derived by rules."""
    if not v["class"].endswith("/late-structure"):
        return False
    ops = v.get("case", {}).get("ops_readable", [])
    if any(o.startswith(("insert_oa(", "insert_ob(", "insert_fm(")) for o in ops):
        return True
    fact_seen = aged = False
    for o in ops:
        if o.startswith(("insert_mo_mor_dom(", "insert_mo_mor_cod(")):
            if aged:
                return True
        elif o.startswith("insert_"):
            fact_seen = True
        elif o.startswith("close"):
            aged = aged or fact_seen
    return False
