"""modelsim: C01-C07, C15, C16, C20 (generated models under simulated API histories)."""
import json
import os
import re
import shutil
import subprocess
import sys
import time

from . import main as M

VGEN = os.path.join(M.TARGET, "debug", "vgen")
def ms_target(tier, batch=0):
    # one target directory per tier (and per thorough batch): all of them build a binary called
    # msbin, and cargo does not re-link (re-uplift) a binary it considers fresh, so a shared
    # directory would let one corpus run another corpus' binary
    return os.path.join(M.TARGET, "ms-" + tier + ("-b%d" % batch if batch else ""))


def n_batches(tier):
    """The thorough tier runs several corpora: batch b holds another window of the program
    generators (other programs, other rule shapes), compiled by the compiler of the current tree."""
    if tier != "thorough":
        return 1
    try:
        return max(1, int(os.environ.get("VERIF_BATCHES", "6")))
    except ValueError:
        return 6
GEN_SEED = 1  # the corpus is fixed by the generator seed, the programs are recompiled on every run


def setup():
    M.cargo_build(["vgen", "modelsim-sim"], "build-vgen.log")
    build_corpus("quick")


def corpus_dir(tier, batch=0):
    return os.path.join(M.WORK, "corpus-%s%s" % (tier, "-b%d" % batch if batch else ""))


def build_corpus(tier, batch=0):
    """Regenerates the corpus with the compiler of the current tree and rebuilds the batch binary.
    A module that rustc rejects is dropped (DIAGNOSTIC C09) and the build is retried."""
    M.cargo_build(["vgen"], "build-vgen.log")
    out = corpus_dir(tier, batch)
    count = 40 if tier == "quick" else 120
    first = batch * 1000
    exclude = []
    for attempt in range(6):
        cmd = [VGEN, "corpus", "--seed", str(GEN_SEED), "--count", str(count), "--first", str(first), "--out", out,
               "--exclude", ",".join(exclude)]
        venv = M.cargo_env()
        if batch:
            venv["VGEN_MODEL_FIRST"] = str(batch * 100)
            venv["VGEN_SKIP_REPO"] = "1"
        proc = subprocess.run(cmd, capture_output=True, text=True, env=venv)
        if proc.returncode != 0:
            raise M.HarnessError("vgen failed: %s %s" % (proc.stdout[-1500:], proc.stderr[-1500:]))
        env = M.cargo_env()
        env["CARGO_TARGET_DIR"] = ms_target(tier, batch)
        t0 = time.time()
        logp = os.path.join(M.WORK, "build-batch-%s%s.log" % (tier, "-b%d" % batch if batch else ""))
        with open(logp, "w") as f:
            rc = subprocess.call(["cargo", "build", "--offline", "-p", "msbin"], cwd=out, env=env, stdout=f, stderr=subprocess.STDOUT)
        if rc == 0:
            M.log("[build] corpus %s batch %d (%s) ok in %.1fs" % (tier, batch, proc.stdout.strip(), time.time() - t0))
            diag = os.path.join(out, "diagnostics.txt")
            if os.path.exists(diag):
                for line in open(diag):
                    if line.startswith("DIAGNOSTIC"):
                        M.log(line.strip())
            return os.path.join(ms_target(tier, batch), "debug", "msbin"), exclude
        text = open(logp, errors="replace").read()
        bad = sorted(set(re.findall(r"gen/(p[gmn][a-z]+|rt_[a-z_]+)\.(?:eql|driver)\.rs", text)))
        if not bad:
            raise M.HarnessError("batch build failed:\n" + "\n".join(text.splitlines()[-40:]))
        for b in bad:
            M.log("DIAGNOSTIC C09 generated code of accepted program %s does not compile; dropped from the corpus" % b)
        exclude += bad
    raise M.HarnessError("batch build keeps failing")


COMP_SKELETON_TOML = """[workspace]
resolver = "2"
members = ["pgc", "msbincomp"]

[profile.dev]
debug = false
incremental = false

[profile.dev.package.eqlog-runtime]
opt-level = 2
[profile.dev.package.modelsim-sim]
opt-level = 2
[profile.dev.package.lang]
opt-level = 2
[profile.dev.package.simcore]
opt-level = 2
"""


def build_comp_corpus(tier):
    """C19: the first programs of the corpus built through the component path of the real driver
    (real rayon, real rustc per rule component) and linked into a second simulator binary."""
    M.cargo_build(["vgen"], "build-vgen.log")
    out = os.path.join(M.WORK, "compcorpus-%s" % tier)
    count = 12 if tier == "quick" else 40
    env = M.cargo_env()
    env["CARGO_TARGET_DIR"] = ms_target(tier)
    # skeleton first, so that cargo can tell us which eqlog-runtime rlib this workspace links
    if not os.path.exists(os.path.join(out, "pgc", "Cargo.toml")):
        os.makedirs(os.path.join(out, "pgc", "src"), exist_ok=True)
        os.makedirs(os.path.join(out, "msbincomp", "src"), exist_ok=True)
        os.makedirs(os.path.join(out, ".cargo"), exist_ok=True)
        open(os.path.join(out, "Cargo.toml"), "w").write(COMP_SKELETON_TOML)
        open(os.path.join(out, ".cargo", "config.toml"), "w").write('[net]\noffline = true\n\n[build]\nrustflags = ["--cfg", "eqlog_verif"]\n')
        shutil.copy(os.path.join(M.VERIF, "Cargo.lock"), os.path.join(out, "Cargo.lock"))
        open(os.path.join(out, "pgc", "Cargo.toml"), "w").write(
            '[package]\nname = "pgc"\nversion = "0.1.0"\nedition = "2024"\n\n[dependencies]\neqlog-runtime = { path = "%s/eqlog-runtime" }\nmdrv = { path = "%s/modelsim/mdrv" }\n' % (M.REPO, M.VERIF))
        open(os.path.join(out, "pgc", "src", "lib.rs"), "w").write("pub fn entries() -> Vec<mdrv::Entry> { Vec::new() }\n")
        open(os.path.join(out, "msbincomp", "Cargo.toml"), "w").write(
            '[package]\nname = "msbincomp"\nversion = "0.1.0"\nedition = "2021"\n\n[dependencies]\nmdrv = { path = "%s/modelsim/mdrv" }\nmodelsim-sim = { path = "%s/modelsim/sim" }\npgc = { path = "../pgc" }\n' % (M.VERIF, M.VERIF))
        open(os.path.join(out, "msbincomp", "src", "main.rs"), "w").write("fn main() { modelsim_sim::main_with(pgc::entries()); }\n")
    proc = subprocess.run(["cargo", "build", "--offline", "-p", "eqlog-runtime", "--message-format=json"], cwd=out, env=env,
                          capture_output=True, text=True)
    if proc.returncode != 0:
        raise M.HarnessError("cannot build eqlog-runtime for the component corpus: %s" % proc.stderr[-2000:])
    rlib = None
    for line in proc.stdout.splitlines():
        try:
            msg = json.loads(line)
        except ValueError:
            continue
        if msg.get("reason") == "compiler-artifact" and msg.get("target", {}).get("name") in ("eqlog_runtime", "eqlog-runtime") \
                and "custom-build" not in msg.get("target", {}).get("kind", []):
            for f in msg.get("filenames", []):
                if f.endswith(".rlib"):
                    rlib = f
    if rlib is None:
        raise M.HarnessError("cargo did not report the eqlog-runtime rlib")
    t0 = time.time()
    proc = subprocess.run([VGEN, "compcorpus", "--seed", str(GEN_SEED), "--count", str(count), "--out", out, "--runtime-rlib", rlib],
                          capture_output=True, text=True, env=M.cargo_env())
    if proc.returncode != 0:
        raise M.HarnessError("vgen compcorpus failed: %s %s" % (proc.stdout[-1500:], proc.stderr[-1500:]))
    summary = [l for l in proc.stdout.splitlines() if l.startswith("compcorpus:")]
    logp = os.path.join(M.WORK, "build-compbatch-%s.log" % tier)
    with open(logp, "w") as f:
        rc = subprocess.call(["cargo", "build", "--offline", "-p", "msbincomp"], cwd=out, env=env, stdout=f, stderr=subprocess.STDOUT)
    if rc != 0:
        raise M.HarnessError("component batch build failed:\n" + "\n".join(open(logp, errors="replace").read().splitlines()[-40:]))
    M.log("[build] component corpus %s (%s) ok in %.1fs" % (tier, summary[-1] if summary else "?", time.time() - t0))
    return os.path.join(ms_target(tier), "debug", "msbincomp")


def run_c19_dynamic(tier, seed):
    """Runs the same seeded histories against the module build and the component build of the
    same programs and compares the transcript hashes."""
    binary, _ = build_corpus(tier)
    comp = build_comp_corpus(tier)
    outs = {}
    for label, b in (("module", binary), ("component", comp)):
        outdir = os.path.join(M.WORK, "C19-%s-%s" % (tier, label))
        try:
            res = M.run_shards(b, "C19", tier, seed, outdir)
        except M.HarnessError as e:
            if label == "component" and "module" in outs:
                # the module build ran the same histories fine: the component build of the same
                # programs crashing is a disagreement between the two builds, not a harness problem
                os.makedirs(M.REPLAYS, exist_ok=True)
                path = os.path.join(M.REPLAYS, "C19-dynamic-crash.json")
                v = {"engine": "modelsim", "property": "C19", "class": "component-build-crashes",
                     "message": "the simulator linked against the component build dies on histories that the module build of the same programs runs: %s" % str(e).splitlines()[1:3],
                     "seed": seed, "case": {"kind": "c19-dynamic-crash"},
                     "replay": "re-run ./check C19 %s" % tier, "no_replay": True, "replay_path": path, "log_hash": ""}
                json.dump(v, open(path, "w"), indent=1)
                return outs["module"][0], outs["module"][1], [v], {"dynamic_half": {"status": "component binary crashed"}}
            raise
        hashes = {}
        for i in range(M.NSHARDS):
            hp = os.path.join(outdir, "shard-%d.hashes.json" % i)
            if os.path.exists(hp):
                hashes.update(json.load(open(hp)))
        outs[label] = (res, outdir, hashes)
    mh, ch = outs["module"][2], outs["component"][2]
    common = sorted(set(mh) & set(ch))
    if not common:
        raise M.HarnessError("C19: the two builds have no history in common")
    diffs = [k for k in common if mh[k] != ch[k]]
    viol = []
    os.makedirs(M.REPLAYS, exist_ok=True)
    for n, k in enumerate(diffs[:3]):
        path = os.path.join(M.REPLAYS, "C19-dynamic-%d.json" % n)
        v = {"engine": "modelsim", "property": "C19", "class": "builds-disagree",
             "message": "history %s gives transcript %s on the module build and %s on the component build" % (k, mh[k], ch[k]),
             "seed": seed, "case": {"kind": "c19-dynamic", "history": k, "module": mh[k], "component": ch[k]},
             "replay": "re-run ./check C19 %s (both binaries are rebuilt and the history is regenerated from the seed)" % tier,
             "no_replay": True, "replay_path": path, "log_hash": ""}
        json.dump(v, open(path, "w"), indent=1)
        viol.append(v)
    cov = {"dynamic_half": {"programs_in_both_builds": len(set(k.split("#")[0] for k in common)), "histories_compared": len(common),
                            "histories_with_differences": len(diffs)}}
    return outs["component"][0], outs["component"][1], viol, cov


def index_families(cdir):
    """Reach measure for the dimension along which seeded changes were missed: which column orders
    and diagonal patterns index selection picked for the programs of this corpus (read off the
    field names of the emitted model structs)."""
    orders, diagonals, own_all = {}, set(), 0
    gdir = os.path.join(cdir, "gen")
    if not os.path.isdir(gdir):
        return {}
    for f in sorted(os.listdir(gdir)):
        if not f.endswith(".eql.rs"):
            continue
        text = open(os.path.join(gdir, f), errors="replace").read()
        for m in re.finditer(r"\b([a-z_]+?)_new_(eqs_([0-9_]+?)_)?order_([0-9]+(?:_[0-9]+)*)(_own|_all)?:", text):
            o = m.group(4)
            orders.setdefault(str(o.count("_") + 1), set()).add(o)
            if m.group(3):
                diagonals.add(m.group(3))
            if m.group(5) == "_all":
                own_all += 1
    return {"column_orders_by_width": {k: sorted(v) for k, v in sorted(orders.items())},
            "diagonal_patterns": sorted(diagonals), "member_relation_index_copies": own_all}


def limit_memory():
    """Address-space limit for a worker: a run-away close (possible on a changed tree: the budgets
    are only consulted when close_until polls) ends as an allocation failure, not as a machine-wide
    memory exhaustion."""
    import resource
    lim = 6 * 1024 * 1024 * 1024
    resource.setrlimit(resource.RLIMIT_AS, (lim, lim))


def shard_env(i, prop):
    env = dict(os.environ)
    if prop == "C20":
        env["VERIF_PAD"] = "x" * ((i * 977) % 4096)
        env["VERIF_ALLOC_PAD"] = str((i * 24) % 256)
    return env


def run(prop, tier, seed, spec, t0):
    results, outdir, binary, extra_cov, extra_viol = run_shards(prop, tier, seed)
    fp_dirs = []
    batches = [{"batch": 0, "programs": extra_cov.get("corpus", {}).get("programs")}]
    for b in range(1, n_batches(tier)):
        # a further corpus: other programs, other history seeds; every violation remembers the
        # binary and the corpus it was found with, so that its replay runs against the same programs
        r2, out2, _bin2, cov2, viol2 = run_shards(prop, tier, seed * 1000003 + b, batch=b)
        results += r2
        extra_viol += viol2
        fp_dirs.append(out2)
        batches.append({"batch": b, "programs": cov2.get("corpus", {}).get("programs"),
                        "dropped_uncompilable": cov2.get("corpus", {}).get("dropped_uncompilable")})
    if len(batches) > 1:
        extra_cov["corpus_batches"] = batches
    return M.finish(prop, tier, seed, spec, results, outdir, binary, t0, extra_cov=extra_cov, extra_violations=extra_viol,
                    extra_fp_dirs=fp_dirs)


def run_shards(prop, tier, seed, suffix="", nshards=None, extra_args=(), batch=0):
    nshards = nshards or M.NSHARDS
    binary, excluded = build_corpus(tier, batch)
    outdir = os.path.join(M.WORK, "%s-%s%s%s" % (prop, tier, "-b%d" % batch if batch else "", suffix))
    if os.path.isdir(outdir):
        shutil.rmtree(outdir)
    os.makedirs(outdir)
    extra = list(extra_args)
    if os.environ.get("VERIF_RUNS"):
        extra += ["--runs", os.environ["VERIF_RUNS"]]
    setarch = shutil.which("setarch")

    def launch(i, skip):
        cmd = [binary, "run", "--prop", prop, "--tier", tier, "--seed", str(seed), "--shard", str(i),
               "--nshards", str(nshards), "--out", outdir] + extra
        if skip:
            cmd += ["--skip-programs", ",".join(sorted(skip))]
        if prop == "C20" and setarch and i % 2 == 1:
            cmd = [setarch, os.uname().machine, "-R"] + cmd
        out = open(os.path.join(outdir, "shard-%d.stdout" % i), "w")
        return subprocess.Popen(cmd, stdout=out, stderr=subprocess.STDOUT, env=shard_env(i, prop), cwd=outdir, preexec_fn=limit_memory), out

    def current_program(i):
        try:
            return open(os.path.join(outdir, "shard-%d.current" % i)).read().strip() or None
        except OSError:
            return None

    results, bad = [], []
    skipped = {}           # shard -> programs left out after that shard's worker died while running them
    wave = {i: set() for i in range(nshards)}
    for attempt in range(4):
        procs = [(i, launch(i, skip)) for i, skip in sorted(wave.items())]
        deadline = time.time() + float(os.environ.get("VERIF_SHARD_TIMEOUT", "3000"))
        again = {}
        for i, (p, out) in procs:
            try:
                rc = p.wait(timeout=max(1.0, deadline - time.time()))
            except subprocess.TimeoutExpired:
                p.kill()
                p.wait()
                rc = "timeout"
            out.close()
            path = os.path.join(outdir, "shard-%d.json" % i)
            died = rc == "timeout" or (isinstance(rc, int) and rc < 0) or (rc != 0 and not os.path.exists(path))
            if rc != 0 or not os.path.exists(path):
                tail = open(os.path.join(outdir, "shard-%d.stdout" % i), errors="replace").read()[-3000:]
                partial = None
                if os.path.exists(path):
                    try:
                        partial = json.load(open(path))
                    except ValueError:
                        partial = None
                # a worker writes its findings as soon as it has them: what it found before it died counts
                if partial and partial.get("violations"):
                    results.append(partial)
                    bad.append("shard %d exited %s\n%s" % (i, rc, tail))
                    continue
                cur = current_program(i)
                if died and cur and attempt < 3 and cur not in wave[i]:
                    # the process died inside a run (on a changed tree a close can run away between two
                    # polls and end as an allocation failure or at the time limit): run the shard again
                    # without the program it was executing
                    M.log("[warn] shard %d died (%s) while running %s: shard restarted without that program" % (i, rc, cur))
                    again[i] = wave[i] | {cur}
                    skipped.setdefault(i, set()).add(cur)
                    try:
                        os.remove(path)
                    except OSError:
                        pass
                    continue
                bad.append("shard %d exited %s\n%s" % (i, rc, tail))
                continue
            results.append(json.load(open(path)))
        if not again:
            break
        wave = again
    for r in results:
        for v in r.get("violations", []):
            v["binary"] = binary
            v["corpus"] = {"tier": tier, "batch": batch}
    if bad:
        # a worker that died (allocation failure, time limit) is a harness error -- unless other
        # workers hold replay-confirmable violations, which are reported (each is re-executed in a
        # fresh process before it counts); the dead workers are then mentioned as diagnostics
        if not any(r.get("violations") for r in results):
            raise M.HarnessError("worker failure:\n" + "\n".join(bad))
        for b in bad:
            M.log("[warn] " + b.splitlines()[0] + " (violations from the other workers are reported)")
    rejected = []
    diag = os.path.join(corpus_dir(tier, batch), "diagnostics.txt")
    if os.path.exists(diag):
        rejected = [l.strip() for l in open(diag) if l.startswith("rejected")]
    extra_cov = {"corpus": {"generator_seed": GEN_SEED, "programs": results[0].get("counters", {}).get("programs") if results else None,
                            "index_families": index_families(corpus_dir(tier, batch)),
                            "programs_left_out_after_a_worker_died_running_them": {str(k): sorted(v) for k, v in sorted(skipped.items())},
                            "dropped_uncompilable": excluded,
                            "generated_programs_rejected_by_the_compiler": len(rejected),
                            "of_which_tempting_surjectivity_violations": len([r for r in rejected if "does not appear earlier" in r])}}
    extra_viol = []
    if prop == "C20":
        seen = {}
        for i in range(nshards):
            hp = os.path.join(outdir, "shard-%d.hashes.json" % i)
            if not os.path.exists(hp):
                raise M.HarnessError("shard %d wrote no hashes" % i)
            for k, v in json.load(open(hp)).items():
                seen.setdefault(k, {}).setdefault(v, []).append(i)
        diffs = {k: v for k, v in seen.items() if len(v) > 1}
        extra_cov["cross_process"] = {
            "processes": nshards,
            "perturbations": ["ASLR off (setarch -R) on odd shards" if setarch else "setarch unavailable",
                              "environment padding 0..4095 bytes", "allocation padding 0..255 bytes per shard",
                              "fresh RandomState keys per process"],
            "histories_compared": len(seen),
            "histories_with_differences": len(diffs),
        }
        os.makedirs(M.REPLAYS, exist_ok=True)
        for n, (k, v) in enumerate(sorted(diffs.items())[:3]):
            path = os.path.join(M.REPLAYS, "C20-crossproc-%d.json" % n)
            viol = {"engine": "modelsim", "property": "C20", "class": "cross-process-difference",
                    "message": "transcripts of history %s differ between processes: %s" % (k, v), "seed": seed,
                    "replay": "statistical: re-run ./check C20 quick; the difference shows up between fresh processes only",
                    "case": {"kind": "c20-crossproc", "key": k, "hashes_by_shard": v},
                    "no_replay": True, "replay_path": path, "log_hash": ""}
            json.dump(viol, open(path, "w"), indent=1)
            extra_viol.append(viol)
    return results, outdir, binary, extra_cov, extra_viol


def replay(path, v):
    # the replay needs the corpus that contains the program: try both tiers
    case = v.get("case", {})
    name = case.get("program")
    where = v.get("corpus")
    if where:
        binary, _ = build_corpus(where.get("tier", "quick"), int(where.get("batch", 0)))
        proc = subprocess.run([binary, "replay", path], capture_output=True, text=True)
        lines = proc.stdout.strip().splitlines()
        sys.stdout.write((lines[-1] if lines else "") + "\n")
        sys.stderr.write(proc.stderr)
        return proc.returncode
    for tier in ("quick", "thorough"):
        src = os.path.join(corpus_dir(tier), "gen", "%s.eql" % name)
        if tier == "quick" or os.path.exists(src):
            binary, _ = build_corpus(tier)
            proc = subprocess.run([binary, "replay", path], capture_output=True, text=True)
            if proc.returncode == 2 and "not part of this corpus" in proc.stderr and tier == "quick":
                continue
            lines = proc.stdout.strip().splitlines()
            sys.stdout.write((lines[-1] if lines else "") + "\n")
            sys.stderr.write(proc.stderr)
            return proc.returncode
    return 2
