"""./check selftest determinism | mutants [names...]

determinism: every engine is run on the same master seed twice with 16 worker processes and
once with 3; the order-independent digests of run seeds and run outcomes, the number of
evaluations and of non-trivial runs must be identical. (The scratch directory names, process
ids and wall-clock times differ between these runs; nothing else may.)

mutants: each patch under /verif/mutants (and /verif/seeded/*/patch.diff) is applied to /repo
(git apply), the quick check of the property it breaks is run and must exit 1 (or print a new
KNOWN-FINDING-free VIOLATION line), and the patch is reverted (git checkout) straight afterwards.
"""
import json
import os
import subprocess
import sys
import time

from . import main as M
from . import props


def digest(results):
    tot = {"evaluations": 0, "nontrivial_runs": 0, "seed_sum": 0, "outcome_sum": 0, "steps": 0, "violations": []}
    for r in results:
        tot["evaluations"] += r["evaluations"]
        tot["nontrivial_runs"] += r["nontrivial_runs"]
        tot["steps"] += r.get("steps", 0)
        tot["seed_sum"] = (tot["seed_sum"] + int(r["seed_sum"], 16)) & 0xFFFFFFFFFFFFFFFF
        tot["outcome_sum"] = (tot["outcome_sum"] + int(r["outcome_sum"], 16)) & 0xFFFFFFFFFFFFFFFF
        # violations are de-duplicated per shard (one per class), so their number depends on the
        # shard count by design: compare the set of classes
        tot["violations"] = sorted(set(tot["violations"] or []) | set(v["class"] for v in r.get("violations", [])))
    return tot


def run_once(prop, seed, nshards, tag):
    spec = props.PROPS[prop]
    mod = spec["module"]
    if mod == "rt":
        from . import rt
        M.cargo_build(["rtsim"], "build-rtsim.log")
        out = os.path.join(M.WORK, "selftest-%s-%s" % (prop, tag))
        runs = {"C14": "200000", "C08": "60000", "C18": "100000"}[prop]
        return M.run_shards(rt.BIN, prop, "quick", seed, out, ["--runs", runs], nshards=nshards)
    if mod == "build":
        from . import build
        extra = {"C12": ["--units", "24", "--random", "48"], "C11": ["--images", "4000"], "C13": ["--reps", "1"], "C19": []}[prop]
        res, _ = build.run_shards(prop, "quick", seed, nshards, suffix="-selftest-" + tag, extra_args=extra)
        return res
    from . import model
    res, _, _, _, _ = model.run_shards(prop, "quick", seed, suffix="-selftest-" + tag, nshards=nshards, extra_args=["--runs", "60"])
    return res


def determinism(args):
    plist = args or ["C08", "C14", "C18", "C11", "C12", "C13", "C01", "C02", "C03", "C04", "C05", "C06", "C07", "C15", "C16", "C17", "C20"]
    seeds = [1, 7]
    bad = 0
    for prop in plist:
        for seed in seeds:
            a = digest(run_once(prop, seed, 16, "a"))
            b = digest(run_once(prop, seed, 16, "b"))
            c = digest(run_once(prop, seed, 3, "c"))
            ok = a == b == c
            # C13 / C20 let every shard process everything (cross-process comparison): their totals
            # scale with the shard count by design; compare the two 16-shard runs only
            if prop in ("C13", "C20"):
                ok = a == b
            print("%s seed=%d  16:%s  16:%s  3:%s  %s" % (prop, seed, a["outcome_sum"], b["outcome_sum"], c["outcome_sum"], "ok" if ok else "MISMATCH"))
            if not ok:
                bad += 1
                print("   a=%s\n   b=%s\n   c=%s" % (a, b, c))
    print("determinism: %d mismatches" % bad)
    return 1 if bad else 0


def git(*a):
    return subprocess.run(["git", "-C", M.REPO] + list(a), capture_output=True, text=True)


def mutants(args):
    cat = []
    mdir = os.path.join(M.VERIF, "mutants")
    if os.path.isdir(mdir):
        for f in sorted(os.listdir(mdir)):
            if f.endswith(".patch"):
                meta = {}
                mp = os.path.join(mdir, f[:-6] + ".json")
                if os.path.exists(mp):
                    meta = json.load(open(mp))
                cat.append((f[:-6], os.path.join(mdir, f), meta.get("properties", []), meta.get("silent", False)))
    sdir = os.path.join(M.VERIF, "seeded")
    if os.path.isdir(sdir):
        for d in sorted(os.listdir(sdir)):
            pf = os.path.join(sdir, d, "patch.diff")
            mf = os.path.join(sdir, d, "meta.json")
            if os.path.exists(pf) and os.path.exists(mf):
                meta = json.load(open(mf))
                cat.append(("seeded/" + d, pf, meta.get("checks", [meta.get("property")]), False))
    if args:
        cat = [c for c in cat if any(a in c[0] for a in args)]
    if git("status", "--porcelain", "--untracked-files=no").stdout.strip():
        print("refusing: /repo has uncommitted changes to tracked files")
        return 2
    results = []
    for name, patch, plist, silent in cat:
        ap = git("apply", "--check", patch)
        if ap.returncode != 0:
            print("%-40s patch does not apply: %s" % (name, ap.stderr.strip()[:200]))
            results.append((name, "does-not-apply"))
            continue
        git("apply", patch)
        try:
            for prop in plist:
                t0 = time.time()
                proc = subprocess.run([os.path.join(M.VERIF, "check"), prop, "quick"], capture_output=True, text=True, cwd=M.VERIF,
                                      env=dict(os.environ, VERIF_REPO=M.REPO, VERIF_SHARD_TIMEOUT="900"))
                viol = [l for l in proc.stdout.splitlines() if l.startswith("VIOLATION")]
                verdict = "caught" if proc.returncode == 1 and viol else ("silent" if proc.returncode == 0 else "harness-error(%d)" % proc.returncode)
                expected = "silent" if silent else "caught"
                print("%-40s %-4s %-18s expected %-7s %5.0fs  %s" % (name, prop, verdict, expected, time.time() - t0,
                                                                  (viol[0][:110] if viol else proc.stderr.strip().splitlines()[-1][:110] if proc.stderr.strip() else "")))
                sys.stdout.flush()
                results.append((name + ":" + prop, "ok" if verdict == expected else "UNEXPECTED " + verdict))
        finally:
            git("checkout", "--", ".")
    bad = [r for r in results if r[1] != "ok"]
    print("mutants: %d runs, %d unexpected" % (len(results), len(bad)))
    for b in bad:
        print("  ", b)
    return 1 if bad else 0


def run(argv):
    if not argv:
        print(__doc__)
        return 2
    if argv[0] == "determinism":
        return determinism(argv[1:])
    if argv[0] == "mutants":
        return mutants(argv[1:])
    print(__doc__)
    return 2
