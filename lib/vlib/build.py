"""buildsim: C11, C12, C13."""
import json
import os
import shutil
import subprocess
import sys

from . import main as M

BIN = os.path.join(M.TARGET, "debug", "buildsim")


def setup():
    M.cargo_build(["buildsim"], "build-buildsim.log")


def shard_env(i):
    """Per-process perturbations for the cross-process half of C13 (and harmless elsewhere)."""
    env = dict(os.environ)
    env["VERIF_PAD"] = "x" * ((i * 977) % 4096)
    return env


def run(prop, tier, seed, spec, t0):
    results, outdir = run_shards(prop, tier, seed, M.NSHARDS)
    return finish(prop, tier, seed, spec, t0, results, outdir)


def run_shards(prop, tier, seed, nshards, suffix="", extra_args=()):
    M.cargo_build(["buildsim"], "build-buildsim.log")
    outdir = os.path.join(M.WORK, "%s-%s%s" % (prop, tier, suffix))
    extra = list(extra_args)
    for k in ("units", "random", "images", "reps"):
        v = os.environ.get("VERIF_" + k.upper())
        if v:
            extra += ["--" + k, v]
    if os.path.isdir(outdir):
        shutil.rmtree(outdir)
    os.makedirs(outdir)
    procs = []
    setarch = shutil.which("setarch")
    for i in range(nshards):
        cmd = [BIN, "run", "--prop", prop, "--tier", tier, "--seed", str(seed), "--shard", str(i),
               "--nshards", str(nshards), "--out", outdir] + extra
        if prop == "C13" and setarch and i % 2 == 1:
            cmd = [setarch, os.uname().machine, "-R"] + cmd
        out = open(os.path.join(outdir, "shard-%d.stdout" % i), "w")
        procs.append((i, subprocess.Popen(cmd, stdout=out, stderr=subprocess.STDOUT, env=shard_env(i), cwd=outdir), out))
    results = []
    bad = []
    for i, p, out in procs:
        rc = p.wait()
        out.close()
        path = os.path.join(outdir, "shard-%d.json" % i)
        if rc != 0 or not os.path.exists(path):
            tail = open(os.path.join(outdir, "shard-%d.stdout" % i), errors="replace").read()[-3000:]
            bad.append("shard %d exited %s\n%s" % (i, rc, tail))
            continue
        results.append(json.load(open(path)))
    if bad:
        raise M.HarnessError("worker failure:\n" + "\n".join(bad))
    return results, outdir


def finish(prop, tier, seed, spec, t0, results, outdir):
    setarch = shutil.which("setarch")
    extra_cov = {}
    extra_viol = []
    if prop == "C13":
        seen = {}
        for i in range(M.NSHARDS):
            hp = os.path.join(outdir, "shard-%d.hashes.json" % i)
            if not os.path.exists(hp):
                raise M.HarnessError("shard %d wrote no hashes" % i)
            for k, v in json.load(open(hp)).items():
                seen.setdefault(k, {}).setdefault(v, []).append(i)
        diffs = {k: v for k, v in seen.items() if len(v) > 1}
        extra_cov["cross_process"] = {
            "processes": M.NSHARDS,
            "perturbations": ["ASLR off (setarch -R) on odd shards" if setarch else "setarch unavailable",
                              "environment padding of 0..4095 bytes", "fresh RandomState keys per process"],
            "theory_builds_compared": len(seen),
            "keys_with_differences": len(diffs),
        }
        os.makedirs(M.REPLAYS, exist_ok=True)
        for n, (k, v) in enumerate(sorted(diffs.items())):
            path = os.path.join(M.REPLAYS, "C13-crossproc-%d.json" % n)
            viol = {"engine": "buildsim", "property": "C13", "class": "cross-process-difference",
                    "message": "outputs of %s differ between processes: %s" % (k, v), "seed": seed,
                    "replay": "statistical: re-run ./check C13 quick; the difference shows up between fresh processes only",
                    "case": {"kind": "c13-crossproc", "key": k, "hashes_by_shard": v},
                    "no_replay": True, "replay_path": path, "log_hash": ""}
            json.dump(viol, open(path, "w"), indent=1)
            extra_viol.append(viol)
            if n >= 2:
                break
    extra_fp = None
    binaries = BIN
    if prop == "C19":
        # dynamic half: the same histories against the module build and the component build
        from . import model
        binaries = {"buildsim": BIN}
        try:
            dres, ddir, dviol, dcov = model.run_c19_dynamic(tier, seed)
            results = results + dres
            extra_viol += dviol
            extra_cov.update(dcov)
            extra_fp = [ddir]
        except M.HarnessError as e:
            # the dynamic half could not run (e.g. the component build does not link or its binary
            # crashes): a harness error -- unless the text half already holds violations, which are
            # reported; the failure of the dynamic half is then mentioned as a diagnostic
            if not any(r.get("violations") for r in results):
                raise
            M.log("[warn] C19 dynamic half did not complete: %s" % str(e).splitlines()[0])
            extra_cov["dynamic_half"] = {"status": "did not complete", "reason": str(e)[:400]}
    return M.finish(prop, tier, seed, spec, results, outdir, binaries, t0, extra_cov=extra_cov, extra_violations=extra_viol,
                    extra_fp_dirs=extra_fp)


def replay(path, v):
    M.cargo_build(["buildsim"], "build-buildsim.log")
    proc = subprocess.run([BIN, "replay", path], capture_output=True, text=True)
    lines = proc.stdout.strip().splitlines()
    sys.stdout.write((lines[-1] if lines else "") + "\n")
    sys.stderr.write(proc.stderr)
    return proc.returncode
