"""Per-property specification used for dispatch and for the evidence files."""

RT_REAL = ["eqlog-runtime (path dependency on /repo/eqlog-runtime, built from the current working tree, "
           "debug assertions on): wbtree::map, wbtree::set, prefix_tree, toposort"]

PROPS = {
    "C08": {
        "module": "rt",
        "level": "exploration",
        "rule": ("seeded histories (3-60 ops) over up to 5 live handles of PrefixTreeN (N drawn from 0..9) plus up to 4 "
                 "operand handles of arity N-1 obtained from get(k).cloned() (shared structure) or built fresh; ops = insert, "
                 "remove, contains, clear, union, difference, insert_restriction, remove_restriction, mapped (partial, "
                 "non-injective column maps), clone, drop; every live handle is compared with a BTreeSet reference after "
                 "every step (iter, is_empty, iter_restrictions, get for every key). A run is non-trivial when it held >= 2 "
                 "tuples and >= 2 live handles at once; distinct = distinct final-state fingerprints (contents of all handles) "
                 "of non-trivial runs (capped at 100000 per shard, so a lower bound)."),
        "real": RT_REAL,
        "stub": [],
        "assumptions": [
            "get_mut / iter_restrictions_mut are not in the alphabet (not listed by the property; documented in the source as able to break the representation invariant)",
            "maps passed to mapped() are functional graphs (one value per key), as generated code passes them",
            "a prefix without tuples may be answered by get() with None or with an empty sub-relation",
        ],
    },
    "C14": {
        "module": "rt",
        "level": "exploration",
        "rule": ("seeded histories over up to 6 live handles of WBTreeMap<u64>: 7/8 short runs (1-9 ops, 6 keys: dense "
                 "sampling of the short-sequence space the property wants enumerated), 1/8 long runs (40-400 ops, 16-2000 keys); "
                 "ops = insert, remove, get, get_mut+write, entry().or_insert / or_insert_with / Occupied::{get_mut,remove,"
                 "into_mut} / Vacant::insert, iter (partial), iter_mut (writes, early stop), clear, union(merge), "
                 "difference(filter) with non-commutative callbacks, clone, drop; values are unique write stamps; after every "
                 "step every live handle is compared with its BTreeMap reference (content, len) and its shape hook "
                 "(weight balance and size at every node, height bound). A run is non-trivial when at least one mutation hit a "
                 "handle that shared nodes with another handle; distinct = distinct final-state fingerprints of those runs "
                 "(capped at 100000 per shard, so a lower bound)."),
        "real": RT_REAL + ["hook H2 WBTreeMap::verif_shape (cfg eqlog_verif) reads the tree; it changes nothing"],
        "stub": [],
        "assumptions": [
            "WBTreeMap::mapped is excluded (not in the property; documented as keeping len only as an upper bound)",
            "the property's 'exhaustively up to a bounded length' is answered by dense seeded sampling, not enumeration (this family samples)",
            "height bound checked is the consequence of the balance invariant: floor(log_{4/3}(n+1)) + 1",
        ],
    },
    "C18": {
        "module": "rt",
        "level": "exploration",
        "rule": ("seeded arrival schedules: a random multigraph (1-7 objects, 0-9 morphisms, some lacking dom or cod, half of "
                 "the cases acyclic by construction) whose obj/dom/cod tuples arrive in 1-5 batches; after every batch "
                 "morphism_toposort is called under 4 new/old splits (batch=new, all new, all old, random disjoint split) and "
                 "compared with a DFS reference (Ok iff acyclic; exact multiset with correct ends; topological). A case is "
                 "non-trivial when some state has >= 2 morphisms with both ends; distinct = distinct fingerprints of the "
                 "sequence of (graph, verdict) states."),
        "real": RT_REAL,
        "stub": ["the close loop that produces the splits is replaced by the arrival schedule (the model-level half of C18 is served by modelsim)"],
        "assumptions": [
            "inputs are well-formed as generated code produces them: dom and cod functional, every referenced object present in the object tables",
            "the returned sequence is not required to be independent of the split, only Ok/Err and the multiset",
        ],
    },
}
