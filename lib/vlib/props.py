"""Per-property specification used for dispatch and for the evidence files."""

RT_REAL = ["eqlog-runtime (path dependency on /repo/eqlog-runtime, built from the current working tree, "
           "debug assertions on): wbtree::map, wbtree::set, prefix_tree, toposort"]

MS_REAL = ["the compiler of the current tree (eqlog::process, module mode, in-process) turns every corpus program into Rust",
           "real rustc compiles the generated modules against the real eqlog-runtime (path dependency on /repo)",
           "the generated model is driven through its generated public API; private state is read by a driver file textually included next to the generated module"]

COMMON_MS_RULE = ("corpus = the repository's own test theories as far as the fragment parser covers them (no model declarations, <= 3 kB) plus "
                  "generated programs (typed random generator, generator seed 1; quick 40 / thorough 120 programs; shapes: joins of 1-4 atoms, "
                  "repeated variables inside an atom, repeated atoms of one relation, premise equalities, nested terms, wildcards, sort atoms, "
                  "interleaved if/then, equality conclusions, `!` with and without `:=`, branch, match/enum), recompiled by the current compiler on "
                  "every run; ")

PROPS = {
    "C08": {
        "module": "rt",
        "level": "exploration",
        "rule": ("seeded histories (3-60 ops) over up to 5 live handles of PrefixTreeN (N drawn from 0..9) plus up to 4 "
                 "operand handles of arity N-1 obtained from get(k).cloned() (shared structure) or built fresh; ops = insert, "
                 "remove, contains, clear, union, difference, insert_restriction, remove_restriction, mapped (partial, "
                 "non-injective column maps), clone, drop; every live handle is compared with a BTreeSet reference after "
                 "every step (iter, is_empty, iter_restrictions, get for every key). A run is non-trivial when it held >= 2 "
                 "tuples and >= 2 live handles at once; distinct = distinct final-state fingerprints (contents of all handles) "
                 "of non-trivial runs (capped at 100000 per shard, so a lower bound)."),
        "real": RT_REAL,
        "stub": [],
        "assumptions": [
            "get_mut / iter_restrictions_mut are not in the alphabet (not listed by the property; documented in the source as able to break the representation invariant)",
            "maps passed to mapped() are functional graphs (one value per key), as generated code passes them",
            "a prefix without tuples may be answered by get() with None or with an empty sub-relation",
        ],
    },
    "C14": {
        "module": "rt",
        "level": "exploration",
        "rule": ("seeded histories over up to 6 live handles of WBTreeMap<u64>: 7/8 short runs (1-9 ops, 6 keys: dense "
                 "sampling of the short-sequence space the property wants enumerated), 1/8 long runs (40-400 ops, 16-2000 keys); "
                 "ops = insert, remove, get, get_mut+write, entry().or_insert / or_insert_with / Occupied::{get_mut,remove,"
                 "into_mut} / Vacant::insert, iter (partial), iter_mut (writes, early stop), clear, union(merge), "
                 "difference(filter) with non-commutative callbacks, clone, drop; values are unique write stamps; after every "
                 "step every live handle is compared with its BTreeMap reference (content, len) and its shape hook "
                 "(weight balance and size at every node, height bound). A run is non-trivial when at least one mutation hit a "
                 "handle that shared nodes with another handle; distinct = distinct final-state fingerprints of those runs "
                 "(capped at 100000 per shard, so a lower bound)."),
        "real": RT_REAL + ["hook H2 WBTreeMap::verif_shape (cfg eqlog_verif) reads the tree; it changes nothing"],
        "stub": [],
        "assumptions": [
            "WBTreeMap::mapped is excluded (not in the property; documented as keeping len only as an upper bound)",
            "the property's 'exhaustively up to a bounded length' is answered by dense seeded sampling, not enumeration (this family samples)",
            "height bound checked is the consequence of the balance invariant: floor(log_{4/3}(n+1)) + 1",
        ],
    },
    "C18": {
        "module": "rt",
        "level": "exploration",
        "rule": ("seeded arrival schedules: a random multigraph (1-7 objects, 0-9 morphisms, some lacking dom or cod, half of "
                 "the cases acyclic by construction) whose obj/dom/cod tuples arrive in 1-5 batches; after every batch "
                 "morphism_toposort is called under 4 new/old splits (batch=new, all new, all old, random disjoint split) and "
                 "compared with a DFS reference (Ok iff acyclic; exact multiset with correct ends; topological). A case is "
                 "non-trivial when some state has >= 2 morphisms with both ends; distinct = distinct fingerprints of the "
                 "sequence of (graph, verdict) states. Model half: seeded C17 histories (both program families); the driver calls "
                 "morphism_toposort on the model's six tables at every poll; a quarter of the histories get one extra morphism that "
                 "closes a directed cycle (back edge or self-loop): a close that panics must carry the cycle report and the "
                 "reference-closed asserted facts must be cyclic, a close that returns must leave an acyclic graph."),
        "real": RT_REAL,
        "stub": ["rtsim half: the close loop that produces the splits is replaced by the arrival schedule; modelsim half: nothing stubbed, the driver calls morphism_toposort on the model's actual six tables at every poll of seeded C17 histories"],
        "assumptions": [
            "inputs are well-formed as generated code produces them: dom and cod functional, every referenced object present in the object tables",
            "the returned sequence is not required to be independent of the split, only Ok/Err and the multiset",
        ],
    },
    "C11": {
        "module": "build",
        "level": "fault_enumeration",
        "rule": ("fault images of the source file the driver reads, for every base text (the repository's test theories, its "
                 "error-test sources, the buildsim theory families): truncation at EVERY char boundary (exhaustive for base texts "
                 "up to the tier's size limit, seeded sample beyond), final newline stripped, CRLF on all / on a seeded subset of "
                 "lines, lone CR, BOM, torn overwrite (prefix of A + suffix of B at line boundaries), dropped / duplicated line, "
                 "one char replaced by a 2-4 byte code point, NUL, a line terminator unknown to str::lines (NEL, U+2028, U+2029, VT, FF), "
                 "block-level storage faults at 64/512/4096 bytes (zeroed block, two blocks swapped, block written twice), zero-filled "
                 "tail, truncation inside a trailing comment, tabs for leading blanks, blank / comment-only / BOM-only files. Each image goes through the real eqlog::process (module build) "
                 "with the rendering of the error inside catch_unwind. Non-trivial = any image other than the unmodified base; "
                 "distinct = distinct outcomes (hash of the rendered diagnostic, or of the generated module when accepted)."),
        "real": ["eqlog::process end to end (parser, semantic checks, error rendering, code generation) built from /repo's working tree",
                 "real file system (per-run scratch directory on tmpfs) for the source and the outputs"],
        "stub": ["none for this property (module builds start no compiler)"],
        "assumptions": [
            "only valid UTF-8 images (the property's quantifier); only the listed fault kinds, not arbitrary token sequences",
            "an Err whose text does not start with 'Error: ' (an I/O error) is accepted as is",
            "a hang would surface as the check exceeding its time limit; no wall-clock oracle is used",
        ],
    },
    "C12": {
        "module": "build",
        "level": "fault_enumeration",
        "rule": ("for every unit (family, vA, vB, build type, scheduler seed, width of the parallel section): Build(vA); Edit(vB); "
                 "Build(vB) is run once with crash-image recording, giving the surviving tree for a kill before EVERY mutating "
                 "seam call k plus torn variants (target truncated to 0 bytes / to its first half; partial rlib) -- exhaustive "
                 "over crash points of that build; plus the completed build, compiler failures at every rustc call, injected "
                 "I/O errors on mutations and reads; from every such state: Edit(vC); Build; Build (no-op clause) for vC in "
                 "{vA, vB, third version}. Quick tier: a seeded subset of (vA, vB) pairs per family; thorough: all pairs, 4 "
                 "schedules, plus seeded 3-12 step histories with up to 4 faults executed through the real kill path. Every "
                 "difference found on a crash image is re-executed through the real kill path (unwinding through "
                 "eqlog::process) before it is reported. Non-trivial = the kill landed after >= 1 mutation of the build; distinct "
                 "= distinct (surviving tree, vC) pairs."),
        "real": ["eqlog::process end to end, called in-process; its fs / Command / par_bridge calls go through hook H1",
                 "real file system: the simulated disk is a scratch tree on tmpfs, only the moments of mutation are simulated",
                 "real threads in the parallel section, released one at a time by the seeded scheduler"],
        "stub": ["rustc: an in-process stub writes RLIB\\0 + sha256(component source, path-free flags) to the -o path",
                 "rayon pool: replaced by the park-and-release scheduler (width knob 1/2/4/all)"],
        "assumptions": [
            "process death = unwinding panic at a seam call; build.rs holds no guard that touches the disk on unwind; validated on every run against abort() in a child process at the same seam call (probes hard_kill_*)",
            "no power-loss faults (lost unsynced writes): the property speaks of killed builds",
            "a surviving build that fails or panics is not judged (the property speaks of builds that report success); counted in counters",
        ],
    },
    "C13": {
        "module": "build",
        "level": "exploration",
        "rule": ("every theory (buildsim families, the repository's test theories; the three multi-second ones only in the "
                 "thorough tier) x {module, component}: one canonical build plus seeded variants per shard (scheduler seed, width "
                 "of the parallel section in {1,2,4,all}, scratch directory names and depth, relative vs absolute paths, cold vs "
                 "after an edit cycle, repetition inside one process) compared byte for byte (module, component sources, "
                 "digests, stub rlibs); all 16 shard processes build every theory and their tree hashes are compared across "
                 "processes (ASLR off on odd shards, environment padding). Non-trivial = a successful build with outputs; "
                 "distinct = distinct (output tree, scheduler seed) pairs."),
        "real": ["eqlog::process end to end through hook H1; real threads under the seeded scheduler; real file system"],
        "stub": ["rustc stub (its output is a function of the component source, so rlibs add nothing beyond the sources)",
                 "rayon pool replaced by the seeded scheduler; an uncontrolled real-rayon sample is not part of this check"],
        "assumptions": [
            "theory file name is held fixed (it is a declared input of the function)",
            "std's per-process SipHash keys cannot be seeded from outside; a difference that shows only across processes is reported with a statistical replay note",
        ],
    },
    "C01": {
        "module": "model",
        "level": "exploration",
        "rule": COMMON_MS_RULE + "per run a seeded history of <= 40 API calls (new_, new_<enum>, insert_, define_, equate_, close, close_until cancelled at a seeded poll, duplicates, arguments drawn from all ids handed out incl. non-roots) ending in close(); after every close that completed the source rules are re-evaluated naively over the public dump (every rule path, every prefix ending in a then-atom, every assignment) plus single-valuedness. Non-trivial = a completed close that ran >= 3 iterations; distinct = distinct final public dumps per program.",
        "real": MS_REAL,
        "stub": ["none: compiler, rustc, runtime and generated code are the real ones; the reference (naive chase / rule checker / union-find) is the oracle, not a stub of the system"],
        "assumptions": ["branch/match are read as control-flow paths (blocks' premises stay in force, their names go out of scope), as eqlog.eql defines them", "closes are run as close_until with a poll/element budget; runs that exhaust it (diverging programs) are not judged"],
    },
    "C02": {
        "module": "model",
        "level": "exploration",
        "rule": COMMON_MS_RULE + "per run a seeded history over caller-created elements only (so that the asserted facts are well defined), intermediate closes allowed, final close(); the reference naive chase (saturate surjective conclusions, then perform all enabled `!` at once; budgets 400 elements / 60 rounds) runs over exactly the asserted facts and equalities; the closed model must be isomorphic to it by the map that fixes caller-created elements and is extended along function graphs (injective, surjective, all tables both ways). Non-trivial = final close ran >= 3 iterations; distinct = distinct final dumps per program.",
        "real": MS_REAL,
        "stub": ["none: compiler, rustc, runtime and generated code are the real ones; the reference (naive chase / rule checker / union-find) is the oracle, not a stub of the system"],
        "assumptions": ["only (program, input) pairs whose reference chase terminates within budget are judged; a real close that exhausts its poll budget is inconclusive, not a violation", "`then f(a) = t` with t defined adjoins the row (no `f(a)!` needed), as the compiler reads it"],
    },
    "C03": {
        "module": "model",
        "level": "exploration",
        "rule": COMMON_MS_RULE + "per run a fact set (named elements, definitions d = f(args), tuples, equalities) and 2-4 schedules of it: the one-shot history plus seeded topological linearisations with duplicated assertions, re-assertions of earlier facts, close() at random cut points and permuted element creation; all final models must be isomorphic to the one-shot model by the map induced by the names; a second close() must leave the full public dump (ids and iteration order) unchanged. Non-trivial = >= 4 iterations overall; distinct = distinct one-shot dumps per program.",
        "real": MS_REAL,
        "stub": ["none: compiler, rustc, runtime and generated code are the real ones; the reference (naive chase / rule checker / union-find) is the oracle, not a stub of the system"],
        "assumptions": ["runs in which some schedule exhausts the close budget are not judged"],
    },
    "C04": {
        "module": "model",
        "level": "exploration",
        "rule": COMMON_MS_RULE + "seeded histories as for C01; the monitor runs after every close/close_until return AND at every poll of close_until's condition: every new copy of a relation (all column orders, diagonal copies un-permuted and filtered by their pattern) denotes one set N, every old copy one set O, N and O disjoint, all components roots, type sets = one id per class, element index lists every row under each component, uprooted lists empty, iterators = N u O without repetition, point queries = membership and invariant under substituting equal ids, enum case queries = constructor rows. Non-trivial = >= 2 monitor evaluations and >= 3 polls; distinct = distinct final dumps per program.",
        "real": MS_REAL,
        "stub": ["none: compiler, rustc, runtime and generated code are the real ones; the reference (naive chase / rule checker / union-find) is the oracle, not a stub of the system"],
        "assumptions": ["field-name grammar <rel>_(new|old)[_eqs_<pattern>]_order_<perm> is parsed from the emitted struct; if it stops parsing the check exits 2", "before a model is closed a function graph may be multi-valued: a point query must then return one of the stored values"],
    },
    "C05": {
        "module": "model",
        "level": "exploration",
        "rule": COMMON_MS_RULE + "seeded histories; after EVERY call: are_equal_ over all pairs of ids = reference union-find (seeded from the last closed state plus the equate_ calls since), root_ idempotent and inside the class, id counters; while no equate_ since the last close: an inserted tuple is reported by the point query and exactly once by the iterator, define_ returns an existing value (no new id) or the next dense id, new_ returns the next dense id, new_<enum>(case) is found by <enum>_cases. Since session 3 the corpus of this check also holds the two model-declaration families (member predicates over global types; a member type with morphism applications): their histories come from the C17 generator, every second one with a tail of assertions that no close follows; new_<t>(parent) must make the element a member at once; tuples inherited in the last closed state are part of the reference. Non-trivial = >= 1 close or cancelled close in the history; distinct = distinct final dumps per program.",
        "real": MS_REAL,
        "stub": ["none: compiler, rustc, runtime and generated code are the real ones; the reference (naive chase / rule checker / union-find) is the oracle, not a stub of the system"],
        "assumptions": ["for multi-valued function graphs before a close, evaluation must return one of the asserted values (nothing stronger is promised)",
                        "model programs: three consequences of the C17 defects are known findings with classes of their own (KF-C05-1/2/3); wrong or missing tuples stay live"],
    },
    "C06": {
        "module": "model",
        "level": "exploration",
        "rule": COMMON_MS_RULE + "programs of the corpus without `!` in any then-statement (incl. 'tempting' programs the compiler must reject: a then-atom mentioning a term no earlier statement mentions); every close of a seeded history must finish within 2*(C + sum_r C^arity(r)) + 4 iterations (C = classes before the close), must not increase the number of classes of any sort and must not allocate ids. The two model-declaration families are surjective and take part (histories from the C17 generator). Non-trivial = a completed close with >= 2 iterations; distinct = distinct final dumps per program.",
        "real": MS_REAL,
        "stub": ["none: compiler, rustc, runtime and generated code are the real ones; the reference (naive chase / rule checker / union-find) is the oracle, not a stub of the system"],
        "assumptions": ["liveness is stated in iterations (polls of close_until), never in wall-clock time"],
    },
    "C07": {
        "module": "model",
        "level": "fault_enumeration",
        "rule": COMMON_MS_RULE + "per run a seeded history, then for EVERY poll index k of a direct close() of it (enumerated, up to 12): a fresh model is closed with the monotone state-based condition 'all facts of the public dump at poll k of the direct run hold'; returned true => condition holds; false => condition false and rules hold; the stopped state lies inside the closed model; then optionally further assertions over caller-created elements (applied to both sides) and close(): the result must satisfy all rules and be isomorphic to a direct close of the same assertions. Non-trivial = the direct close ran >= 3 iterations; distinct = distinct (final dump, k) per program.",
        "real": MS_REAL,
        "stub": ["none: compiler, rustc, runtime and generated code are the real ones; the reference (naive chase / rule checker / union-find) is the oracle, not a stub of the system"],
        "assumptions": ["ids are comparable between the dry run and the cancelled run because evaluation is deterministic (C20)", "runs whose direct close exhausts the budget are not judged"],
    },
    "C15": {
        "module": "model",
        "level": "exploration",
        "rule": COMMON_MS_RULE + "programs of the corpus with an enum; seeded histories incl. new_<enum>(case); at every poll and after every close: every element of every enum sort has >= 1 case and <enum>_case does not panic; after a completed close the returned constructor application evaluates to an element equal to it. Non-trivial = >= 1 enum element checked; distinct = distinct final dumps per program.",
        "real": MS_REAL,
        "stub": ["none: compiler, rustc, runtime and generated code are the real ones; the reference (naive chase / rule checker / union-find) is the oracle, not a stub of the system"],
        "assumptions": ["the 'compiler accepts no rule that makes a non-constructor enum term defined' half is static (C10 territory) and only exercised as far as the generator emits such programs"],
    },
    "C16": {
        "module": "model",
        "level": "exploration",
        "rule": COMMON_MS_RULE + "per run two seeded lists of assertions O (aged to old through the private move_new_to_old) and N (new); four models: labelled (O old, N new), everything new, O only, everything old; the rule functions of one iteration are run per rule group through the included driver and the rows pushed into each delta vector are compared: conservation law pushes(labelled) + pushes(O only) = pushes(everything new) as multisets per rule group and vector (the symmetric single-valuedness rule as a set of unordered pairs), and everything old => nothing pushed. Non-trivial = the labelled model enumerated >= 1 match; distinct = distinct labelled push multisets per program.",
        "real": MS_REAL,
        "stub": ["none: compiler, rustc, runtime and generated code are the real ones; the reference (naive chase / rule checker / union-find) is the oracle, not a stub of the system"],
        "assumptions": ["decided dynamically on the emitted rule functions, not by parsing the emitted Rust", "no equalities among the inserted elements, so rows are stable"],
    },
    "C20": {
        "module": "model",
        "level": "exploration",
        "rule": COMMON_MS_RULE + "in-process: every seeded history is run twice on fresh models and the transcripts (every return value, the full public dump with iteration order after every call, enum cases) compared; cross-process: all 16 shard processes run the same histories per program and their transcript hashes are compared (ASLR off on odd shards, environment and allocation padding). Non-trivial = >= 1 close; distinct = distinct final dumps per program.",
        "real": MS_REAL,
        "stub": ["none: compiler, rustc, runtime and generated code are the real ones; the reference (naive chase / rule checker / union-find) is the oracle, not a stub of the system"],
        "assumptions": ["std's per-process hash keys cannot be seeded from outside; a cross-process-only difference is reported with a statistical replay note"],
    },
    "C17": {
        "module": "model",
        "level": "exploration",
        "rule": ("corpus = generated programs with one model declaration (1-2 member predicates over global types, global predicates, "
                 "optionally named objects and a named morphism whose dom / cod are derived by rules as in subset_rules.eql; 1-4 global "
                 "rules from 7 templates over member predicates), recompiled by the current compiler; per run a seeded history: 2-5 objects, "
                 "an acyclic morphism graph (chains, diamonds), dom and cod asserted separately, facts, carrier equalities, in the orders "
                 "structure-first / facts-first / mixed with close() and cancelled close_until in between; after the final close: (1) the "
                 "naive rule check incl. the implicit inheritance rules, (2) isomorphism with a reference chase extended by inheritance, "
                 "(3) isomorphism with the model built by asserting everything at once. Classes carry /late-structure or /early-structure "
                 "according to whether structure could arrive after a fact aged. A second family has a member TYPE: model Mo { type El; "
                 "pred mp(El); optionally mq(El, Ca), mr(El, El), func mf(El) -> El } with 2-6 rules from 14 templates; its histories create "
                 "elements inside objects (new_el(parent)), assert partial, non-injective morphism application graphs (insert_el_mor_app), "
                 "member facts, and equalities between member elements, carriers and (where no cycle can arise) objects; the reference "
                 "inherits a tuple with its member-typed components replaced by their images, only where all images are defined. At every "
                 "poll and after every close all `_all` index copies of each member relation are compared: a run in which a copy with a "
                 "member-typed column before the model column, or a diagonal copy, deviates is tagged /unmapped-order or /diagonal-copy "
                 "(known findings KF-C17-2/3); a close that identifies objects, morphisms or member elements tags the run "
                 "/late-structure-derived-merge (KF-C17-1). Non-trivial = all three oracles ran; distinct = distinct final dumps per program."),
        "real": MS_REAL,
        "stub": ["none"],
        "assumptions": ["member-type programs are surjective (no `!`): morphism applications are asserted through the API, not derived by a totality rule",
                        "one member type per model, member functions of arity 1, no global predicates over member types (the compiler panics on `pred g(m: Mo, x: m.El)`)",
                        "objects are equated only where the planned morphism graph stays acyclic; morphisms are never equated",
                        "runs that overlap a known finding (probe *_runs_overlapping_a_known_finding) are judged only as far as the finding's witness allows"],
    },
    "C19": {
        "module": "build",
        "level": "exploration",
        "rule": ("text half (buildsim): every theory (buildsim families, the repository's test theories) is built in both build types by "
                 "the real eqlog::process; the imported link names must equal the exported no_mangle functions, every ...Env struct must be "
                 "token-identical in the module and in its component, every component source must occur verbatim in the single-file module "
                 "and the single-file module minus its embedded rule modules must equal the module of the component build. Dynamic half "
                 "(modelsim): the first programs of the generated corpus are built twice -- as single modules and through the component "
                 "path (real rayon, real rustc per rule component, rlibs linked through cargo link directives) -- and the same seeded API "
                 "histories are run against both binaries; the transcripts (every return value, every iterator output, ids included) "
                 "must be identical. Non-trivial = a theory with >= 1 component / a history with >= 1 close; distinct = distinct component "
                 "trees plus distinct transcripts."),
        "real": ["eqlog::process in both build types; for the dynamic half real rustc and real rayon (no simulator installed), real eqlog-runtime"],
        "stub": ["text half only: stub rustc (the sources are what is compared)"],
        "assumptions": ["the component libraries are linked by a generated build script that prints the same cargo link directives eqlog prints, not through eqlog::process_root (which needs cargo's build-script environment)"],
    },
}
