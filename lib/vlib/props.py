"""Per-property specification used for dispatch and for the evidence files."""

RT_REAL = ["eqlog-runtime (path dependency on /repo/eqlog-runtime, built from the current working tree, "
           "debug assertions on): wbtree::map, wbtree::set, prefix_tree, toposort"]

PROPS = {
    "C08": {
        "module": "rt",
        "level": "exploration",
        "rule": ("seeded histories (3-60 ops) over up to 5 live handles of PrefixTreeN (N drawn from 0..9) plus up to 4 "
                 "operand handles of arity N-1 obtained from get(k).cloned() (shared structure) or built fresh; ops = insert, "
                 "remove, contains, clear, union, difference, insert_restriction, remove_restriction, mapped (partial, "
                 "non-injective column maps), clone, drop; every live handle is compared with a BTreeSet reference after "
                 "every step (iter, is_empty, iter_restrictions, get for every key). A run is non-trivial when it held >= 2 "
                 "tuples and >= 2 live handles at once; distinct = distinct final-state fingerprints (contents of all handles) "
                 "of non-trivial runs (capped at 100000 per shard, so a lower bound)."),
        "real": RT_REAL,
        "stub": [],
        "assumptions": [
            "get_mut / iter_restrictions_mut are not in the alphabet (not listed by the property; documented in the source as able to break the representation invariant)",
            "maps passed to mapped() are functional graphs (one value per key), as generated code passes them",
            "a prefix without tuples may be answered by get() with None or with an empty sub-relation",
        ],
    },
    "C14": {
        "module": "rt",
        "level": "exploration",
        "rule": ("seeded histories over up to 6 live handles of WBTreeMap<u64>: 7/8 short runs (1-9 ops, 6 keys: dense "
                 "sampling of the short-sequence space the property wants enumerated), 1/8 long runs (40-400 ops, 16-2000 keys); "
                 "ops = insert, remove, get, get_mut+write, entry().or_insert / or_insert_with / Occupied::{get_mut,remove,"
                 "into_mut} / Vacant::insert, iter (partial), iter_mut (writes, early stop), clear, union(merge), "
                 "difference(filter) with non-commutative callbacks, clone, drop; values are unique write stamps; after every "
                 "step every live handle is compared with its BTreeMap reference (content, len) and its shape hook "
                 "(weight balance and size at every node, height bound). A run is non-trivial when at least one mutation hit a "
                 "handle that shared nodes with another handle; distinct = distinct final-state fingerprints of those runs "
                 "(capped at 100000 per shard, so a lower bound)."),
        "real": RT_REAL + ["hook H2 WBTreeMap::verif_shape (cfg eqlog_verif) reads the tree; it changes nothing"],
        "stub": [],
        "assumptions": [
            "WBTreeMap::mapped is excluded (not in the property; documented as keeping len only as an upper bound)",
            "the property's 'exhaustively up to a bounded length' is answered by dense seeded sampling, not enumeration (this family samples)",
            "height bound checked is the consequence of the balance invariant: floor(log_{4/3}(n+1)) + 1",
        ],
    },
    "C18": {
        "module": "rt",
        "level": "exploration",
        "rule": ("seeded arrival schedules: a random multigraph (1-7 objects, 0-9 morphisms, some lacking dom or cod, half of "
                 "the cases acyclic by construction) whose obj/dom/cod tuples arrive in 1-5 batches; after every batch "
                 "morphism_toposort is called under 4 new/old splits (batch=new, all new, all old, random disjoint split) and "
                 "compared with a DFS reference (Ok iff acyclic; exact multiset with correct ends; topological). A case is "
                 "non-trivial when some state has >= 2 morphisms with both ends; distinct = distinct fingerprints of the "
                 "sequence of (graph, verdict) states."),
        "real": RT_REAL,
        "stub": ["the close loop that produces the splits is replaced by the arrival schedule (the model-level half of C18 is served by modelsim)"],
        "assumptions": [
            "inputs are well-formed as generated code produces them: dom and cod functional, every referenced object present in the object tables",
            "the returned sequence is not required to be independent of the split, only Ok/Err and the multiset",
        ],
    },
    "C11": {
        "module": "build",
        "level": "fault_enumeration",
        "rule": ("fault images of the source file the driver reads, for every base text (the repository's test theories, its "
                 "error-test sources, the buildsim theory families): truncation at EVERY char boundary (exhaustive for base texts "
                 "up to the tier's size limit, seeded sample beyond), final newline stripped, CRLF on all / on a seeded subset of "
                 "lines, lone CR, BOM, torn overwrite (prefix of A + suffix of B at line boundaries), dropped / duplicated line, "
                 "one char replaced by a 2-4 byte code point, NUL. Each image goes through the real eqlog::process (module build) "
                 "with the rendering of the error inside catch_unwind. Non-trivial = any image other than the unmodified base; "
                 "distinct = distinct outcomes (hash of the rendered diagnostic, or of the generated module when accepted)."),
        "real": ["eqlog::process end to end (parser, semantic checks, error rendering, code generation) built from /repo's working tree",
                 "real file system (per-run scratch directory on tmpfs) for the source and the outputs"],
        "stub": ["none for this property (module builds start no compiler)"],
        "assumptions": [
            "only valid UTF-8 images (the property's quantifier); only the listed fault kinds, not arbitrary token sequences",
            "an Err whose text does not start with 'Error: ' (an I/O error) is accepted as is",
            "a hang would surface as the check exceeding its time limit; no wall-clock oracle is used",
        ],
    },
    "C12": {
        "module": "build",
        "level": "fault_enumeration",
        "rule": ("for every unit (family, vA, vB, build type, scheduler seed, width of the parallel section): Build(vA); Edit(vB); "
                 "Build(vB) is run once with crash-image recording, giving the surviving tree for a kill before EVERY mutating "
                 "seam call k plus torn variants (target truncated to 0 bytes / to its first half; partial rlib) -- exhaustive "
                 "over crash points of that build; plus the completed build, compiler failures at every rustc call, injected "
                 "I/O errors on mutations and reads; from every such state: Edit(vC); Build; Build (no-op clause) for vC in "
                 "{vA, vB, third version}. Quick tier: a seeded subset of (vA, vB) pairs per family; thorough: all pairs, 4 "
                 "schedules, plus seeded 3-12 step histories with up to 4 faults executed through the real kill path. Every "
                 "difference found on a crash image is re-executed through the real kill path (unwinding through "
                 "eqlog::process) before it is reported. Non-trivial = the kill landed after >= 1 mutation of the build; distinct "
                 "= distinct (surviving tree, vC) pairs."),
        "real": ["eqlog::process end to end, called in-process; its fs / Command / par_bridge calls go through hook H1",
                 "real file system: the simulated disk is a scratch tree on tmpfs, only the moments of mutation are simulated",
                 "real threads in the parallel section, released one at a time by the seeded scheduler"],
        "stub": ["rustc: an in-process stub writes RLIB\\0 + sha256(component source, path-free flags) to the -o path",
                 "rayon pool: replaced by the park-and-release scheduler (width knob 1/2/4/all)"],
        "assumptions": [
            "process death = unwinding panic at a seam call; build.rs holds no guard that touches the disk on unwind",
            "no power-loss faults (lost unsynced writes): the property speaks of killed builds",
            "a surviving build that fails or panics is not judged (the property speaks of builds that report success); counted in counters",
        ],
    },
    "C13": {
        "module": "build",
        "level": "exploration",
        "rule": ("every theory (buildsim families, the repository's test theories; the three multi-second ones only in the "
                 "thorough tier) x {module, component}: one canonical build plus seeded variants per shard (scheduler seed, width "
                 "of the parallel section in {1,2,4,all}, scratch directory names and depth, relative vs absolute paths, cold vs "
                 "after an edit cycle, repetition inside one process) compared byte for byte (module, component sources, "
                 "digests, stub rlibs); all 16 shard processes build every theory and their tree hashes are compared across "
                 "processes (ASLR off on odd shards, environment padding). Non-trivial = a successful build with outputs; "
                 "distinct = distinct (output tree, scheduler seed) pairs."),
        "real": ["eqlog::process end to end through hook H1; real threads under the seeded scheduler; real file system"],
        "stub": ["rustc stub (its output is a function of the component source, so rlibs add nothing beyond the sources)",
                 "rayon pool replaced by the seeded scheduler; an uncontrolled real-rayon sample is not part of this check"],
        "assumptions": [
            "theory file name is held fixed (it is a declared input of the function)",
            "std's per-process SipHash keys cannot be seeded from outside; a difference that shows only across processes is reported with a statistical replay note",
        ],
    },
}
