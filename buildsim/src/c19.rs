//! C19 (text half): the module build and the component build of one program declare the
//! environment of every rule identically on both sides of the library boundary, export exactly
//! the symbols the module imports, and contain the same rule code. Evaluated on the files the
//! real `eqlog::process` writes in both build types (the dynamic half lives in modelsim).

use crate::c13::load_theories;
use crate::harness::*;
use crate::sim::{Plan, Tree};
use simcore::cli::{ShardStats, WorkerArgs};
use simcore::{Fnv, Json, Violation};
use std::collections::{BTreeMap, BTreeSet};

fn env_structs(text: &str) -> BTreeMap<String, String> {
    let mut out = BTreeMap::new();
    let mut rest = text;
    while let Some(i) = rest.find("pub struct ") {
        let after = &rest[i + "pub struct ".len()..];
        let name_end = after.find(|c: char| !(c.is_alphanumeric() || c == '_')).unwrap_or(after.len());
        let name = &after[..name_end];
        if name.ends_with("Env") {
            if let Some(end) = after.find("\n}") {
                // normalise whitespace: token identity, not layout
                let body: String = after[..end + 2].split_whitespace().collect::<Vec<_>>().join(" ");
                out.insert(name.to_string(), body);
            }
        }
        rest = &after[name_end..];
    }
    out
}

fn quoted_after<'a>(text: &'a str, marker: &str) -> BTreeSet<&'a str> {
    let mut out = BTreeSet::new();
    let mut rest = text;
    while let Some(i) = rest.find(marker) {
        let after = &rest[i + marker.len()..];
        if let Some(end) = after.find('"') {
            out.insert(&after[..end]);
        }
        rest = after;
    }
    out
}

fn exported_fns(text: &str) -> BTreeSet<String> {
    let mut out = BTreeSet::new();
    let mut rest = text;
    while let Some(i) = rest.find("#[unsafe(no_mangle)]") {
        let after = &rest[i..];
        if let Some(j) = after.find("pub fn ") {
            let name = &after[j + 7..];
            let end = name.find('(').unwrap_or(0);
            out.insert(name[..end].trim().to_string());
        }
        rest = &after[20..];
    }
    out
}

/// Returns Err((class, message)) on the first discrepancy.
pub fn compare(name: &str, module_tree: &Tree, comp_tree: &Tree) -> Result<usize, (String, String)> {
    let mod_key = format!("out/{name}.eql.rs");
    let strip_digest = |t: &str| -> String { t.lines().filter(|l| !l.starts_with("// DIGEST: ")).collect::<Vec<_>>().join("\n") };
    let module = strip_digest(&String::from_utf8_lossy(module_tree.get(&mod_key).ok_or(("harness".to_string(), "no module".to_string()))?));
    let cmodule = strip_digest(&String::from_utf8_lossy(comp_tree.get(&mod_key).ok_or(("harness".to_string(), "no component module".to_string()))?));
    let comps: Vec<(&String, String)> = comp_tree
        .iter()
        .filter(|(k, _)| k.starts_with("comp/") && k.ends_with(".rs"))
        .map(|(k, v)| (k, String::from_utf8_lossy(v).to_string()))
        .collect();
    // (1) exported symbols = imported symbols
    let imports: BTreeSet<String> = quoted_after(&cmodule, "#[link_name = \"").into_iter().map(|s| s.to_string()).collect();
    let mut exports = BTreeSet::new();
    for (_, src) in &comps {
        exports.extend(exported_fns(src));
    }
    if imports != exports {
        return Err((
            "symbols-differ".into(),
            format!(
                "{name}: the module imports {:?} but the components export {:?}",
                imports.difference(&exports).collect::<Vec<_>>(),
                exports.difference(&imports).collect::<Vec<_>>()
            ),
        ));
    }
    let imports_m: BTreeSet<String> = quoted_after(&module, "#[link_name = \"").into_iter().map(|s| s.to_string()).collect();
    if imports_m != imports {
        return Err(("symbols-differ".into(), format!("{name}: module build and component build import different symbols")));
    }
    // (2) environment structs identical on both sides of the boundary
    let menv = env_structs(&cmodule[cmodule.find("unsafe extern").map(|i| 0..i).unwrap_or(0..cmodule.len())]);
    let mut seen = 0;
    for (k, src) in &comps {
        for (ename, body) in env_structs(src) {
            seen += 1;
            match menv.get(&ename) {
                Some(mb) if *mb == body => {}
                Some(mb) => {
                    return Err((
                        "env-struct-differs".into(),
                        format!("{name}: {ename} is declared as `{body}` in {k} but as `{mb}` in the module"),
                    ))
                }
                None => return Err(("env-struct-differs".into(), format!("{name}: {ename} of {k} is not declared in the module"))),
            }
        }
    }
    if seen != menv.len() {
        return Err((
            "env-struct-differs".into(),
            format!("{name}: the module declares {} environment structs, the components {}", menv.len(), seen),
        ));
    }
    // (3) same rule code: every component source is embedded verbatim in the module build, and
    // the module build minus the embedded rule modules is the component build's module
    let mut rest = module.clone();
    for (k, src) in &comps {
        let body = src.trim_end();
        match rest.find(body) {
            Some(i) => rest.replace_range(i..i + body.len(), ""),
            None => {
                return Err((
                    "rule-code-differs".into(),
                    format!("{name}: the source of component {k} does not occur verbatim in the single-file module"),
                ))
            }
        }
    }
    let squash = |s: &str| -> String { s.split_whitespace().collect::<Vec<_>>().join(" ") };
    // what remains of the embedded modules are their `mod name { }` wrappers
    let mut rest_s = squash(&rest);
    for (k, _) in &comps {
        let _ = k;
    }
    let cm = squash(&cmodule);
    // remove empty wrappers `mod xyz { }`
    loop {
        let before = rest_s.len();
        if let Some(i) = rest_s.find("mod ") {
            let tail = &rest_s[i..];
            if let Some(j) = tail.find("{ }") {
                let head = &tail[..j];
                if head.split_whitespace().count() == 2 {
                    rest_s.replace_range(i..i + j + 3, "");
                }
            }
        }
        if rest_s.len() == before {
            break;
        }
    }
    if squash(&rest_s) != cm {
        return Err((
            "module-text-differs".into(),
            format!("{name}: the single-file module minus its embedded rule modules differs from the module of the component build"),
        ));
    }
    Ok(comps.len())
}

pub fn run_case(case: &Json) -> Result<(Option<(String, String)>, u64), String> {
    let name = case.get("theory_name").and_then(|x| x.as_str()).ok_or("c19: theory_name")?;
    let text = case.get("text").and_then(|x| x.as_str()).ok_or("c19: text")?;
    let mut trees = Vec::new();
    for component in [false, true] {
        let s = Scratch::new();
        s.edit(name, text);
        let r = build(&s, component, Plan::clean(0), false, None);
        if r.outcome != Outcome::Success {
            return Ok((None, 0));
        }
        trees.push(s.tree());
    }
    let mut f = Fnv::new();
    f.u64(tree_hash(&trees[0]));
    f.u64(tree_hash(&trees[1]));
    match compare(name, &trees[0], &trees[1]) {
        Ok(_) => Ok((None, f.finish())),
        Err((c, m)) if c == "harness" => Err(m),
        Err((c, m)) => {
            f.str(&c);
            f.str(&m);
            Ok((Some((c, m)), f.finish()))
        }
    }
}

pub fn worker(args: &WorkerArgs, stats: &mut ShardStats) {
    let theories = load_theories(args.tier == "thorough");
    stats.count("theories", theories.len() as u64);
    stats.declare_probe("components_compared");
    for (i, th) in theories.iter().enumerate() {
        if (i as u64) % args.nshards != args.shard {
            continue;
        }
        stats.run_seed(i as u64);
        let case = Json::obj(vec![
            ("kind", Json::str("c19-text")),
            ("theory", Json::str(&th.key)),
            ("theory_name", Json::str(&th.name)),
            ("text", Json::str(&th.text)),
        ]);
        let mut trees = Vec::new();
        let mut ok = true;
        for component in [false, true] {
            let s = Scratch::new();
            s.edit(&th.name, &th.text);
            let r = build(&s, component, Plan::clean(0), false, None);
            stats.steps += (r.mutations + r.reads) as u64;
            if r.outcome != Outcome::Success {
                ok = false;
                break;
            }
            trees.push(s.tree());
        }
        if !ok {
            continue;
        }
        match compare(&th.name, &trees[0], &trees[1]) {
            Ok(n) => {
                stats.probe_n("components_compared", n as u64);
                if n >= 1 {
                    stats.nontrivial(tree_hash(&trees[1]));
                    if stats.want_sample() {
                        stats.sample(Json::obj(vec![("theory", Json::str(&th.key)), ("components", Json::Int(n as i64)), ("files", tree_listing(&trees[1]))]));
                    }
                }
            }
            Err((c, m)) if c == "harness" => stats.diagnostics.push(m),
            Err((class, _)) => {
                if let Ok((Some((class2, message)), log_hash)) = run_case(&case) {
                    let _ = class;
                    stats.violation(Violation {
                        property: "C19".into(),
                        class: class2,
                        message,
                        seed: args.seed,
                        run_index: i as u64,
                        case,
                        log_hash,
                    });
                }
            }
        }
    }
}
