//! The simulator behind the H1 seams: owns the moments of file-system mutation, the child
//! compiler, the interleaving of the parallel component section and every fault.

use eqlog::verif::{BuildSim, FsOp};
use sha2::{Digest, Sha256};
use simcore::{EventLog, Json, Rng};
use std::any::Any;
use std::cell::Cell;
use std::collections::BTreeMap;
use std::ffi::{OsStr, OsString};
use std::io;
use std::os::unix::process::ExitStatusExt;
use std::panic::{catch_unwind, panic_any, AssertUnwindSafe};
use std::path::{Path, PathBuf};
use std::process::ExitStatus;
use std::sync::{Condvar, Mutex, MutexGuard};

/// Panic payload of a simulated process death.
pub struct Killed;

thread_local! {
    static TASK: Cell<Option<usize>> = const { Cell::new(None) };
}

pub type Tree = BTreeMap<String, Vec<u8>>;

#[derive(Clone, Debug, PartialEq)]
pub struct Plan {
    pub sched_seed: u64,
    /// maximal number of started-but-unfinished items of the parallel section (0 = unlimited)
    pub width: usize,
    pub skip_after_error: bool,
    /// die before the k-th mutating seam call (0-based, counted in execution order)
    pub kill_at: Option<usize>,
    /// what the dying mutation leaves: 0 nothing, 1 target truncated to 0 bytes, 2 first half
    pub torn: u8,
    /// the k-th mutating seam call fails with this error kind (0 ENOSPC, 1 EIO, 2 EACCES)
    pub io_error_at: Option<(usize, u8)>,
    /// the r-th read seam call fails with EIO
    pub read_error_at: Option<usize>,
    /// the j-th compiler invocation exits non-zero; 0 = no output, 1 = partial output
    pub rustc_fail_at: Option<(usize, u8)>,
    /// record the tree before every mutating seam call (crash-image enumeration)
    pub snapshot: bool,
    pub real_rustc: bool,
}

impl Plan {
    pub fn clean(sched_seed: u64) -> Plan {
        Plan {
            sched_seed,
            width: 0,
            skip_after_error: false,
            kill_at: None,
            torn: 0,
            io_error_at: None,
            read_error_at: None,
            rustc_fail_at: None,
            snapshot: false,
            real_rustc: false,
        }
    }
    pub fn to_json(&self) -> Json {
        let opt = |o: Option<usize>| o.map(|x| Json::Int(x as i64)).unwrap_or(Json::Null);
        Json::obj(vec![
            ("sched_seed", Json::str(&format!("{:x}", self.sched_seed))),
            ("width", Json::Int(self.width as i64)),
            ("skip_after_error", Json::Bool(self.skip_after_error)),
            ("kill_at", opt(self.kill_at)),
            ("torn", Json::Int(self.torn as i64)),
            (
                "io_error_at",
                self.io_error_at
                    .map(|(k, e)| Json::Arr(vec![Json::Int(k as i64), Json::Int(e as i64)]))
                    .unwrap_or(Json::Null),
            ),
            ("read_error_at", opt(self.read_error_at)),
            (
                "rustc_fail_at",
                self.rustc_fail_at
                    .map(|(k, e)| Json::Arr(vec![Json::Int(k as i64), Json::Int(e as i64)]))
                    .unwrap_or(Json::Null),
            ),
            ("real_rustc", Json::Bool(self.real_rustc)),
        ])
    }
    pub fn from_json(j: &Json) -> Option<Plan> {
        let opt = |k: &str| j.get(k).and_then(|v| v.as_u64()).map(|v| v as usize);
        let pair = |k: &str| {
            j.get(k).and_then(|v| v.as_arr()).and_then(|a| Some((a.first()?.as_u64()? as usize, a.get(1)?.as_u64()? as u8)))
        };
        Some(Plan {
            sched_seed: u64::from_str_radix(j.get("sched_seed")?.as_str()?, 16).ok()?,
            width: j.get("width")?.as_u64()? as usize,
            skip_after_error: j.get("skip_after_error")?.as_bool()?,
            kill_at: opt("kill_at"),
            torn: j.get("torn")?.as_u64()? as u8,
            io_error_at: pair("io_error_at"),
            read_error_at: opt("read_error_at"),
            rustc_fail_at: pair("rustc_fail_at"),
            snapshot: false,
            real_rustc: j.get("real_rustc").and_then(|b| b.as_bool()).unwrap_or(false),
        })
    }
    pub fn has_fault(&self) -> bool {
        self.kill_at.is_some() || self.io_error_at.is_some() || self.read_error_at.is_some() || self.rustc_fail_at.is_some()
    }
}

/// What a mutating seam call was about to do (recorded with each crash image).
#[derive(Clone, Debug)]
pub struct OpDesc {
    pub kind: &'static str, // write | remove | mkdir | rustc
    pub rel_path: String,
    /// for write: the new contents; for rustc: the bytes the stub would write to the output
    pub contents: Vec<u8>,
}

pub struct Image {
    pub index: usize,
    pub op: OpDesc,
    pub tree: Tree,
}

#[derive(Clone, Copy, PartialEq, Debug)]
enum TState {
    NotStarted,
    Ready,
    Running,
    Done,
    Skipped,
}

struct Sched {
    state: Vec<TState>,
    current: Option<usize>,
    rng: Rng,
    width: usize,
    skip_after_error: bool,
    failed: bool,
    real_panics: Vec<Box<dyn Any + Send>>,
}

pub struct Inner {
    pub plan: Plan,
    pub mut_count: usize,
    pub read_count: usize,
    pub rustc_count: usize,
    pub writes_and_removes: usize,
    pub log: EventLog,
    pub dead: bool,
    pub images: Vec<Image>,
    pub faults_fired: Vec<&'static str>,
    pub picks: usize,
    pub max_parked: usize,
    pub sections: usize,
    sched: Option<Sched>,
}

pub struct Sim {
    root: PathBuf,
    inner: Mutex<Inner>,
    cv: Condvar,
}

fn err_kind(code: u8) -> io::Error {
    match code {
        0 => io::Error::from_raw_os_error(28), // ENOSPC
        1 => io::Error::from_raw_os_error(5),  // EIO
        _ => io::Error::from_raw_os_error(13), // EACCES
    }
}

pub fn read_tree(root: &Path) -> Tree {
    fn walk(dir: &Path, prefix: &str, out: &mut Tree) {
        let mut entries: Vec<_> = match std::fs::read_dir(dir) {
            Ok(rd) => rd.filter_map(|e| e.ok()).collect(),
            Err(_) => return,
        };
        entries.sort_by_key(|e| e.file_name());
        for e in entries {
            let name = e.file_name().to_string_lossy().to_string();
            let rel = if prefix.is_empty() { name.clone() } else { format!("{prefix}/{name}") };
            let p = e.path();
            if p.is_dir() {
                walk(&p, &rel, out);
            } else if let Ok(bytes) = std::fs::read(&p) {
                out.insert(rel, bytes);
            }
        }
    }
    let mut t = Tree::new();
    walk(&root.join("out"), "out", &mut t);
    walk(&root.join("comp"), "comp", &mut t);
    t
}

pub fn write_tree(root: &Path, tree: &Tree) {
    for (rel, bytes) in tree {
        let p = root.join(rel);
        if let Some(parent) = p.parent() {
            std::fs::create_dir_all(parent).expect("scratch mkdir");
        }
        std::fs::write(&p, bytes).expect("scratch write");
    }
}

/// The stub compiler's output: a function of the component source and the path-free flags.
pub fn stub_rlib_bytes(source: &[u8], flags: &[String]) -> Vec<u8> {
    let mut h = Sha256::new();
    h.update(source);
    for f in flags {
        h.update([0u8]);
        h.update(f.as_bytes());
    }
    let mut out = b"RLIB\0".to_vec();
    out.extend_from_slice(&h.finalize());
    out
}

impl Sim {
    pub fn new(root: &Path, plan: Plan, keep_log: bool) -> Sim {
        Sim {
            root: root.to_path_buf(),
            inner: Mutex::new(Inner {
                plan,
                mut_count: 0,
                read_count: 0,
                rustc_count: 0,
                writes_and_removes: 0,
                log: EventLog::new(keep_log),
                dead: false,
                images: Vec::new(),
                faults_fired: Vec::new(),
                picks: 0,
                max_parked: 0,
                sections: 0,
                sched: None,
            }),
            cv: Condvar::new(),
        }
    }

    pub fn lock(&self) -> MutexGuard<'_, Inner> {
        self.inner.lock().unwrap_or_else(|e| e.into_inner())
    }

    fn rel(&self, p: &Path) -> String {
        let abs = if p.is_absolute() {
            p.to_path_buf()
        } else {
            std::env::current_dir().map(|c| c.join(p)).unwrap_or_else(|_| p.to_path_buf())
        };
        match abs.strip_prefix(&self.root) {
            Ok(r) => r.to_string_lossy().to_string(),
            Err(_) => format!("<outside>/{}", p.file_name().map(|f| f.to_string_lossy().to_string()).unwrap_or_default()),
        }
    }

    /// Chooses who runs next. Called with the lock held by the task that gives up the token.
    fn pick_next(g: &mut Inner) {
        let dead = g.dead;
        let s = g.sched.as_mut().expect("scheduler");
        let may_start = !dead && !(s.failed && s.skip_after_error);
        if !may_start {
            for st in s.state.iter_mut() {
                if *st == TState::NotStarted {
                    *st = TState::Skipped;
                }
            }
        }
        let mut cands: Vec<usize> = Vec::new();
        let mut parked = 0;
        for (i, st) in s.state.iter().enumerate() {
            if *st == TState::Ready {
                cands.push(i);
                parked += 1;
            }
        }
        if may_start && (s.width == 0 || parked < s.width) {
            // a bridge hands out items in iterator order: only the first unstarted one can start
            if let Some(i) = s.state.iter().position(|st| *st == TState::NotStarted) {
                cands.push(i);
            }
        }
        if cands.is_empty() {
            s.current = None;
            return;
        }
        let c = cands[s.rng.usize_below(cands.len())];
        s.current = Some(c);
        g.picks += 1;
        g.max_parked = g.max_parked.max(parked);
        g.log.push(&format!("pick {c}"));
    }

    /// A seam call inside the parallel section is a scheduling point.
    fn yield_point(&self) {
        let me = match TASK.with(|t| t.get()) {
            Some(me) => me,
            None => return,
        };
        let mut g = self.lock();
        if g.sched.is_none() {
            return;
        }
        g.sched.as_mut().unwrap().state[me] = TState::Ready;
        Self::pick_next(&mut g);
        self.cv.notify_all();
        while g.sched.as_ref().unwrap().current != Some(me) {
            g = self.cv.wait(g).unwrap_or_else(|e| e.into_inner());
        }
        g.sched.as_mut().unwrap().state[me] = TState::Running;
    }

    fn die(&self, mut g: MutexGuard<'_, Inner>, what: &str) -> ! {
        g.dead = true;
        g.log.push(&format!("KILL {what}"));
        drop(g);
        if std::env::var_os("VERIF_HARD_KILL").is_some() {
            // validation mode (child process): die the way SIGKILL kills -- no unwinding, no
            // destructors, all other threads gone at the same instant
            std::process::abort();
        }
        panic_any(Killed)
    }

    /// Common handling of a mutating seam call. Returns Err to make the call fail.
    fn mutation(&self, op: OpDesc) -> io::Result<()> {
        let mut g = self.lock();
        if g.dead {
            drop(g);
            panic_any(Killed);
        }
        let k = g.mut_count;
        if g.plan.snapshot {
            let tree = read_tree(&self.root);
            g.images.push(Image {
                index: k,
                op: op.clone(),
                tree,
            });
        }
        if g.plan.kill_at == Some(k) {
            let torn = g.plan.torn;
            if torn != 0 && (op.kind == "write" || op.kind == "rustc") {
                let n = if torn == 1 { 0 } else { op.contents.len() / 2 };
                let p = self.root.join(&op.rel_path);
                let _ = std::fs::write(&p, &op.contents[..n]);
                g.faults_fired.push(if op.kind == "write" { "torn_write_then_kill" } else { "partial_rlib_then_kill" });
            } else {
                g.faults_fired.push("kill");
            }
            let what = format!("before mutation {k} ({} {})", op.kind, op.rel_path);
            self.die(g, &what);
        }
        g.mut_count += 1;
        if let Some((at, code)) = g.plan.io_error_at {
            if at == k {
                g.faults_fired.push("io_error");
                g.log.push(&format!("m{k} {} {} -> io error {code}", op.kind, op.rel_path));
                return Err(err_kind(code));
            }
        }
        if op.kind != "mkdir" {
            g.writes_and_removes += 1;
        }
        let task = TASK.with(|t| t.get()).map(|t| t.to_string()).unwrap_or_else(|| "main".into());
        g.log.push(&format!("m{k} task={task} {} {} len={}", op.kind, op.rel_path, op.contents.len()));
        Ok(())
    }
}

impl BuildSim for Sim {
    fn fs_op(&self, op: FsOp<'_>) -> io::Result<()> {
        self.yield_point();
        match op {
            FsOp::Read { path } => {
                let mut g = self.lock();
                if g.dead {
                    drop(g);
                    panic_any(Killed);
                }
                let r = g.read_count;
                g.read_count += 1;
                let rel = self.rel(path);
                if g.plan.read_error_at == Some(r) {
                    g.faults_fired.push("read_error");
                    g.log.push(&format!("r{r} read {rel} -> EIO"));
                    return Err(err_kind(1));
                }
                g.log.push(&format!("r{r} read {rel}"));
                Ok(())
            }
            FsOp::Write { path, contents } => self.mutation(OpDesc {
                kind: "write",
                rel_path: self.rel(path),
                contents: contents.to_vec(),
            }),
            FsOp::RemoveFile { path } => self.mutation(OpDesc {
                kind: "remove",
                rel_path: self.rel(path),
                contents: Vec::new(),
            }),
            FsOp::CreateDirAll { path } => self.mutation(OpDesc {
                kind: "mkdir",
                rel_path: self.rel(path),
                contents: Vec::new(),
            }),
        }
    }

    fn command_status(&self, _program: &OsStr, args: &[OsString]) -> Option<io::Result<ExitStatus>> {
        self.yield_point();
        let real = self.lock().plan.real_rustc;
        // parse the command line the driver built
        let mut src: Option<PathBuf> = None;
        let mut out: Option<PathBuf> = None;
        let mut flags: Vec<String> = Vec::new();
        let mut i = 0;
        while i < args.len() {
            let a = args[i].to_string_lossy().to_string();
            if i == 0 {
                src = Some(PathBuf::from(&args[i]));
            } else if a == "-o" {
                out = args.get(i + 1).map(PathBuf::from);
                i += 1;
            } else if a == "--extern" {
                // the value is a path to the runtime rlib: not part of the output
                i += 1;
            } else {
                flags.push(a);
            }
            i += 1;
        }
        let (src, out) = match (src, out) {
            (Some(s), Some(o)) => (s, o),
            _ => return Some(Err(io::Error::new(io::ErrorKind::InvalidInput, "stub rustc: cannot parse command line"))),
        };
        let source = std::fs::read(&src).unwrap_or_default();
        let bytes = stub_rlib_bytes(&source, &flags);
        let op = OpDesc {
            kind: "rustc",
            rel_path: self.rel(&out),
            contents: bytes.clone(),
        };
        if let Err(e) = self.mutation(op) {
            return Some(Err(e));
        }
        let mut g = self.lock();
        let j = g.rustc_count;
        g.rustc_count += 1;
        if let Some((at, leave)) = g.plan.rustc_fail_at {
            if at == j {
                if leave == 1 {
                    let _ = std::fs::write(&out, &bytes[..bytes.len() / 2]);
                    g.faults_fired.push("rustc_fail_partial_output");
                } else {
                    g.faults_fired.push("rustc_fail_no_output");
                }
                g.log.push(&format!("rustc {j} exits 1 (leave={leave})"));
                return Some(Ok(ExitStatus::from_raw(1 << 8)));
            }
        }
        if real {
            return None;
        }
        drop(g);
        match std::fs::write(&out, &bytes) {
            Ok(()) => Some(Ok(ExitStatus::from_raw(0))),
            Err(e) => Some(Err(e)),
        }
    }

    fn par_section(&self, n: usize, run_item: &(dyn Fn(usize) -> bool + Sync)) {
        if n == 0 {
            return;
        }
        {
            let mut g = self.lock();
            let seed = g.plan.sched_seed ^ (g.sections as u64).wrapping_mul(0x9e3779b97f4a7c15);
            g.sections += 1;
            g.sched = Some(Sched {
                state: vec![TState::NotStarted; n],
                current: None,
                rng: Rng::new(seed),
                width: g.plan.width,
                skip_after_error: g.plan.skip_after_error,
                failed: false,
                real_panics: Vec::new(),
            });
            g.log.push(&format!("section n={n}"));
            Self::pick_next(&mut g);
        }
        std::thread::scope(|scope| {
            for i in 0..n {
                scope.spawn(move || {
                    TASK.with(|t| t.set(Some(i)));
                    let started = {
                        let mut g = self.lock();
                        loop {
                            let s = g.sched.as_ref().unwrap();
                            if s.state[i] == TState::Skipped {
                                break false;
                            }
                            if s.current == Some(i) {
                                break true;
                            }
                            g = self.cv.wait(g).unwrap_or_else(|e| e.into_inner());
                        }
                    };
                    let mut ok = true;
                    let mut real_panic = None;
                    if started {
                        self.lock().sched.as_mut().unwrap().state[i] = TState::Running;
                        match catch_unwind(AssertUnwindSafe(|| run_item(i))) {
                            Ok(r) => ok = r,
                            Err(p) => {
                                if !p.is::<Killed>() {
                                    real_panic = Some(p);
                                }
                                ok = false;
                            }
                        }
                    }
                    let mut g = self.lock();
                    if started {
                        let s = g.sched.as_mut().unwrap();
                        s.state[i] = TState::Done;
                        if !ok {
                            s.failed = true;
                        }
                        if let Some(p) = real_panic {
                            s.real_panics.push(p);
                        }
                        Self::pick_next(&mut g);
                        self.cv.notify_all();
                    }
                    TASK.with(|t| t.set(None));
                });
            }
        });
        let mut g = self.lock();
        let mut s = g.sched.take().expect("scheduler");
        g.log.push("section end");
        if g.dead {
            drop(g);
            panic_any(Killed);
        }
        if !s.real_panics.is_empty() {
            let p = s.real_panics.swap_remove(0);
            drop(g);
            std::panic::resume_unwind(p);
        }
    }
}
