fn main(){ let _ = eqlog::verif::uninstall; }
