//! buildsim: the real `eqlog::process` under a simulated disk, scheduler and compiler.
//! Serves C11 (source fault images), C12 (crash consistency of incremental builds) and C13
//! (determinism of compilation).

mod c11;
mod c12;
mod c13;
mod c19;
mod harness;
mod sim;

use simcore::cli::{parse_args, Cmd, ShardStats};
use simcore::Json;

const ENGINE: &str = "buildsim";

fn run_case(case: &Json) -> Result<(Option<(String, String)>, u64), String> {
    match case.get("kind").and_then(|k| k.as_str()).unwrap_or("") {
        "c12-history" => {
            let fams = harness::load_families();
            let mut cache = harness::CleanCache::new();
            c12::run_case(&fams, &mut cache, case)
        }
        "c11-input" => c11::run_case(case),
        "c13-pair" => c13::run_case(case),
        "c19-text" => c19::run_case(case),
        other => Err(format!("unknown case kind {other:?}")),
    }
}

fn main() {
    // panics are data here (caught and classified); keep stderr quiet
    std::panic::set_hook(Box::new(|info| {
        if !info.payload().is::<sim::Killed>() {
            eprintln!("panic: {info}");
            if std::env::var("VERIF_BACKTRACE").is_ok() {
                eprintln!("{}", std::backtrace::Backtrace::force_capture());
            }
        }
    }));
    let argv: Vec<String> = std::env::args().collect();
    if argv.get(1).map(|s| s.as_str()) == Some("compile") {
        // buildsim compile IN_DIR OUT_DIR : plain module build, no simulator (debugging aid)
        let config = eqlog::Config {
            in_dir: argv[2].clone().into(),
            out_dir: argv[3].clone().into(),
            component_build: None,
        };
        match eqlog::process(&config) {
            Ok(()) => println!("ok"),
            Err(e) => {
                println!("{e}");
                std::process::exit(1);
            }
        }
        return;
    }
    if argv.get(1).map(|s| s.as_str()) == Some("childbuild") {
        // buildsim childbuild SCRATCH_ROOT component|module PLAN_JSON : one simulated build in this
        // process (used with VERIF_HARD_KILL to compare a real abrupt death with the simulated kill)
        let root = std::path::PathBuf::from(&argv[2]);
        let component = argv[3] == "component";
        let plan = Json::parse(&argv[4]).ok().and_then(|j| sim::Plan::from_json(&j)).expect("plan");
        let s = harness::Scratch::adopt(&root);
        let r = harness::build(&s, component, plan, false, None);
        std::mem::forget(s);
        println!("{}", r.outcome.tag());
        return;
    }
    match parse_args() {
        Ok(Cmd::Run(args)) => {
            let mut stats = ShardStats::new();
            match args.prop.as_str() {
                "C11" => c11::worker(&args, &mut stats),
                "C12" => c12::worker(&args, &mut stats),
                "C13" => c13::worker(&args, &mut stats),
                "C19" => c19::worker(&args, &mut stats),
                p => {
                    eprintln!("buildsim does not serve {p}");
                    std::process::exit(2);
                }
            }
            if let Err(e) = stats.write(&args, ENGINE) {
                eprintln!("cannot write results: {e}");
                std::process::exit(2);
            }
            if !stats.diagnostics.is_empty() {
                for d in &stats.diagnostics {
                    eprintln!("diagnostic: {d}");
                }
                std::process::exit(2);
            }
        }
        Ok(Cmd::Replay { file, .. }) => {
            let j = match std::fs::read_to_string(&file).map_err(|e| e.to_string()).and_then(|t| Json::parse(&t)) {
                Ok(j) => j,
                Err(e) => {
                    eprintln!("cannot read {file}: {e}");
                    std::process::exit(2);
                }
            };
            let case = j.get("case").cloned().unwrap_or(Json::Null);
            match run_case(&case) {
                Ok((Some((class, message)), h)) => {
                    println!(
                        "{}",
                        Json::obj(vec![
                            ("replayed", Json::Bool(true)),
                            ("class", Json::str(&class)),
                            ("message", Json::str(&message)),
                            ("log_hash", Json::str(&format!("{h:016x}"))),
                        ])
                        .to_string()
                    );
                    std::process::exit(1);
                }
                Ok((None, h)) => {
                    println!(
                        "{}",
                        Json::obj(vec![("replayed", Json::Bool(false)), ("log_hash", Json::str(&format!("{h:016x}")))]).to_string()
                    );
                    std::process::exit(0);
                }
                Err(e) => {
                    eprintln!("harness error: {e}");
                    std::process::exit(2);
                }
            }
        }
        Err(e) => {
            eprintln!("{e}");
            std::process::exit(2);
        }
    }
}
