//! Scratch directories, theory families, one simulated build, tree comparison.

use crate::sim::{read_tree, write_tree, Image, Killed, Plan, Sim, Tree};
use simcore::Json;
use std::collections::BTreeMap;
use std::panic::{catch_unwind, AssertUnwindSafe};
use std::path::{Path, PathBuf};
use std::sync::atomic::{AtomicU64, Ordering};
use std::sync::Arc;

static SCRATCH_COUNTER: AtomicU64 = AtomicU64::new(0);

pub struct Scratch {
    pub root: PathBuf,
}

impl Scratch {
    pub fn new() -> Scratch {
        Self::with_suffix("")
    }
    /// `suffix` lets C13 vary directory names and depth; it is never part of any log.
    pub fn with_suffix(suffix: &str) -> Scratch {
        let base = if Path::new("/dev/shm").is_dir() {
            PathBuf::from("/dev/shm")
        } else {
            std::env::temp_dir()
        };
        let n = SCRATCH_COUNTER.fetch_add(1, Ordering::SeqCst);
        let mut root = base.join(format!("verif-bs-{}-{}", std::process::id(), n));
        if !suffix.is_empty() {
            root = root.join(suffix);
        }
        std::fs::create_dir_all(root.join("in")).expect("scratch");
        // canonical root so that relative paths in logs are stable
        let root = std::fs::canonicalize(&root).expect("scratch canonicalize");
        Scratch { root }
    }
    /// Wraps an existing scratch root (child process of the hard-kill validation).
    pub fn adopt(root: &Path) -> Scratch {
        Scratch { root: root.to_path_buf() }
    }
    pub fn top(&self) -> PathBuf {
        // the directory directly under the base that must be removed
        let mut p = self.root.clone();
        while let Some(parent) = p.parent() {
            let name = p.file_name().map(|f| f.to_string_lossy().to_string()).unwrap_or_default();
            if name.starts_with("verif-bs-") {
                return p;
            }
            p = parent.to_path_buf();
        }
        self.root.clone()
    }
    pub fn edit(&self, theory: &str, text: &str) {
        std::fs::write(self.root.join("in").join(format!("{theory}.eql")), text).expect("edit");
    }
    pub fn edit_bytes(&self, theory: &str, bytes: &[u8]) {
        std::fs::write(self.root.join("in").join(format!("{theory}.eql")), bytes).expect("edit");
    }
    pub fn tree(&self) -> Tree {
        read_tree(&self.root)
    }
    pub fn load(&self, tree: &Tree) {
        let _ = std::fs::remove_dir_all(self.root.join("out"));
        let _ = std::fs::remove_dir_all(self.root.join("comp"));
        write_tree(&self.root, tree);
    }
}

impl Drop for Scratch {
    fn drop(&mut self) {
        let _ = std::fs::remove_dir_all(self.top());
    }
}

#[derive(Clone, Debug, PartialEq)]
pub enum Outcome {
    Success,
    Failed(String),
    Killed,
    Panicked(String),
}

impl Outcome {
    pub fn tag(&self) -> &'static str {
        match self {
            Outcome::Success => "success",
            Outcome::Failed(_) => "failed",
            Outcome::Killed => "killed",
            Outcome::Panicked(_) => "panicked",
        }
    }
}

pub struct BuildResult {
    pub outcome: Outcome,
    pub log_hash: u64,
    pub log_lines: Vec<String>,
    pub mutations: usize,
    pub non_mkdir_mutations: usize,
    pub reads: usize,
    pub rustc_calls: usize,
    pub images: Vec<Image>,
    pub faults_fired: Vec<&'static str>,
    pub picks: usize,
    pub max_parked: usize,
}

pub fn panic_message(p: &Box<dyn std::any::Any + Send>) -> String {
    if let Some(s) = p.downcast_ref::<&str>() {
        s.to_string()
    } else if let Some(s) = p.downcast_ref::<String>() {
        s.clone()
    } else {
        "non-string panic payload".to_string()
    }
}

/// One build of the theory in `scratch` through the real `eqlog::process`.
/// `paths`: None = absolute paths; Some(cwd) = chdir there and pass paths relative to it.
pub fn build(scratch: &Scratch, component: bool, plan: Plan, keep_log: bool, relative_to: Option<&Path>) -> BuildResult {
    let sim = Arc::new(Sim::new(&scratch.root, plan, keep_log));
    let mk = |p: PathBuf| -> PathBuf {
        match relative_to {
            Some(base) => p.strip_prefix(base).map(|r| r.to_path_buf()).unwrap_or(p),
            None => p,
        }
    };
    let config = eqlog::Config {
        in_dir: mk(scratch.root.join("in")),
        out_dir: mk(scratch.root.join("out")),
        component_build: if component {
            Some(eqlog::ComponentConfig {
                component_out_dir: mk(scratch.root.join("comp")),
                rustc_path: PathBuf::from(std::env::var("VERIF_RUSTC").unwrap_or_else(|_| "rustc".into())),
                runtime_rlib_path: PathBuf::from(
                    std::env::var("VERIF_RUNTIME_RLIB").unwrap_or_else(|_| "/nonexistent/libeqlog_runtime.rlib".into()),
                ),
                debug: false,
                opt_level: "0".to_string(),
            })
        } else {
            None
        },
    };
    let old_cwd = relative_to.map(|base| {
        let old = std::env::current_dir().expect("cwd");
        std::env::set_current_dir(base).expect("chdir");
        old
    });
    eqlog::verif::install(sim.clone());
    let r = catch_unwind(AssertUnwindSafe(|| match eqlog::process(&config) {
        Ok(()) => Outcome::Success,
        // rendering the error is part of what the user sees (and can itself panic)
        Err(e) => Outcome::Failed(format!("{e}")),
    }));
    eqlog::verif::uninstall();
    if let Some(old) = old_cwd {
        std::env::set_current_dir(old).expect("chdir back");
    }
    let outcome = match r {
        Ok(o) => o,
        Err(p) => {
            if p.is::<Killed>() {
                Outcome::Killed
            } else {
                Outcome::Panicked(panic_message(&p))
            }
        }
    };
    let mut g = sim.lock();
    BuildResult {
        outcome,
        log_hash: g.log.digest(),
        log_lines: g.log.lines.take().unwrap_or_default(),
        mutations: g.mut_count,
        non_mkdir_mutations: g.writes_and_removes,
        reads: g.read_count,
        rustc_calls: g.rustc_count,
        images: std::mem::take(&mut g.images),
        faults_fired: std::mem::take(&mut g.faults_fired),
        picks: g.picks,
        max_parked: g.max_parked,
    }
}

pub struct Family {
    pub name: String,
    /// version name -> (text, well-formed?)
    pub versions: Vec<(String, String)>,
}

pub fn families_dir() -> PathBuf {
    PathBuf::from(std::env::var("VERIF_FAMILIES").unwrap_or_else(|_| concat!(env!("CARGO_MANIFEST_DIR"), "/families").to_string()))
}

pub fn load_families() -> Vec<Family> {
    let mut fams = Vec::new();
    let mut dirs: Vec<_> = std::fs::read_dir(families_dir()).expect("families dir").filter_map(|e| e.ok()).collect();
    dirs.sort_by_key(|e| e.file_name());
    for d in dirs {
        if !d.path().is_dir() {
            continue;
        }
        let mut files: Vec<_> = std::fs::read_dir(d.path()).unwrap().filter_map(|e| e.ok()).collect();
        files.sort_by_key(|e| e.file_name());
        let mut versions = Vec::new();
        for f in files {
            let name = f.file_name().to_string_lossy().to_string();
            if let Some(v) = name.strip_suffix(".eql") {
                versions.push((v.to_string(), std::fs::read_to_string(f.path()).unwrap()));
            }
        }
        fams.push(Family {
            name: d.file_name().to_string_lossy().to_string(),
            versions,
        });
    }
    // generated families: a program of the modelsim generator and edits of it
    let n_gen: u64 = std::env::var("VERIF_GEN_FAMILIES").ok().and_then(|s| s.parse().ok()).unwrap_or(2);
    let mut made = 0;
    let mut i = 0u64;
    while made < n_gen && i < 64 {
        let mut rng = simcore::Rng::new(simcore::rng::derive_seed(0xFA, 4242, i));
        i += 1;
        let mut knobs = lang::gen::GenKnobs::draw(&mut rng);
        knobs.max_rules = 5;
        knobs.tempting = false;
        let p = lang::gen::gen_program(&mut rng, &knobs);
        if p.rules.len() < 3 || p.rules.iter().any(|r| r.name.is_none()) {
            continue;
        }
        let mut versions = vec![("v0".to_string(), lang::print::program(&p))];
        let mut q = p.clone();
        q.rules.pop();
        versions.push(("v1".to_string(), lang::print::program(&q)));
        let mut q = p.clone();
        q.rules[0].name = Some("renamed".to_string());
        versions.push(("v2".to_string(), lang::print::program(&q)));
        let mut q = p.clone();
        let mut extra = q.rules[1].clone();
        extra.name = Some("copyrule".to_string());
        q.rules.push(extra);
        versions.push(("v3".to_string(), lang::print::program(&q)));
        let mut q = p.clone();
        q.rules.swap(0, 1);
        versions.push(("v4".to_string(), lang::print::program(&q)));
        fams.push(Family {
            name: format!("gen{}", ["a", "b", "c", "d", "e", "f", "g", "h"][made as usize % 8]),
            versions,
        });
        made += 1;
    }
    fams
}

/// Differences between a tree and the clean reference, as (class, path) pairs.
pub fn diff_trees(got: &Tree, want: &Tree) -> Vec<(&'static str, String)> {
    let mut d = Vec::new();
    for (k, v) in want {
        match got.get(k) {
            None => d.push(("missing", k.clone())),
            Some(g) if g != v => d.push(("stale-content", k.clone())),
            _ => {}
        }
    }
    for k in got.keys() {
        if !want.contains_key(k) {
            d.push(("extra", k.clone()));
        }
    }
    d
}

pub fn tree_hash(t: &Tree) -> u64 {
    let mut h = simcore::Fnv::new();
    for (k, v) in t {
        h.str(k);
        h.u64(v.len() as u64);
        h.bytes(v);
    }
    h.finish()
}

pub fn tree_listing(t: &Tree) -> Json {
    Json::Obj(t.iter().map(|(k, v)| (k.clone(), Json::Int(v.len() as i64))).collect())
}

/// Cache of clean builds: (theory text, component?) -> tree, or None if the build fails.
pub struct CleanCache {
    map: BTreeMap<(u64, bool), Option<Tree>>,
}

impl CleanCache {
    pub fn new() -> Self {
        CleanCache { map: BTreeMap::new() }
    }
    pub fn get(&mut self, theory: &str, text: &str, component: bool) -> Option<Tree> {
        let key = (simcore::fnv_str(&format!("{theory}\0{text}")), component);
        if let Some(t) = self.map.get(&key) {
            return t.clone();
        }
        let s = Scratch::new();
        s.edit(theory, text);
        let r = build(&s, component, Plan::clean(0), false, None);
        let t = if r.outcome == Outcome::Success { Some(s.tree()) } else { None };
        self.map.insert(key, t.clone());
        t
    }
}
