//! C13: compilation is deterministic. Every theory is built repeatedly under varied scheduler
//! seeds and widths of the parallel section, directory names / depths, relative vs absolute
//! paths, cold vs after an edit cycle, in-process repetition; outputs must be byte-identical.
//! Every shard processes every theory (with its own seeds); the tree hashes are also written out
//! so that the top level can compare across processes (ASLR on/off, environment padding).

use crate::c11::repo_dir;
use crate::harness::*;
use crate::sim::{Plan, Tree};
use simcore::cli::{ShardStats, WorkerArgs};
use simcore::rng::derive_seed;
use simcore::{Fnv, Json, Rng, Violation};
use std::collections::BTreeMap;

pub struct Theory {
    pub key: String,
    pub name: String,
    pub text: String,
    pub other: Option<String>,
}

pub fn load_theories(thorough: bool) -> Vec<Theory> {
    let mut out = Vec::new();
    for fam in load_families() {
        let first = fam.versions.first().map(|(_, t)| t.clone());
        for (v, t) in &fam.versions {
            out.push(Theory {
                key: format!("families/{}/{}", fam.name, v),
                name: fam.name.clone(),
                text: t.clone(),
                other: first.clone(),
            });
        }
    }
    let dir = repo_dir().join("eqlog-test-eval/src");
    let mut files: Vec<_> = std::fs::read_dir(&dir).map(|rd| rd.filter_map(|e| e.ok()).collect()).unwrap_or_else(|_| Vec::new());
    files.sort_by_key(|e| e.file_name());
    for f in files {
        let p = f.path();
        if p.extension().map(|x| x == "eql").unwrap_or(false) {
            if let Ok(text) = std::fs::read_to_string(&p) {
                // the three big theories cost seconds per build in the debug compiler
                if !thorough && text.len() > 5000 {
                    continue;
                }
                let stem = p.file_stem().unwrap().to_string_lossy().to_string();
                out.push(Theory {
                    key: format!("eqlog-test-eval/{stem}"),
                    name: stem,
                    text,
                    other: None,
                });
            }
        }
    }
    out
}

#[derive(Clone, Debug)]
pub struct Variant {
    pub sched_seed: u64,
    pub width: usize,
    pub suffix: String,
    pub relative: bool,
    pub warm: bool,
}

impl Variant {
    pub fn canonical() -> Variant {
        Variant {
            sched_seed: 0,
            width: 1,
            suffix: String::new(),
            relative: false,
            warm: false,
        }
    }
    pub fn draw(rng: &mut Rng) -> Variant {
        let depth = rng.usize_below(4);
        let mut parts = Vec::new();
        for _ in 0..depth {
            let len = rng.range(1, 12) as usize;
            let s: String = (0..len).map(|_| (b'a' + rng.below(26) as u8) as char).collect();
            parts.push(s);
        }
        Variant {
            sched_seed: rng.next_u64(),
            width: *rng.pick(&[0usize, 0, 1, 2, 4]),
            suffix: parts.join("/"),
            relative: rng.chance(1, 3),
            warm: rng.chance(1, 3),
        }
    }
    pub fn to_json(&self) -> Json {
        Json::obj(vec![
            ("sched_seed", Json::str(&format!("{:x}", self.sched_seed))),
            ("width", Json::Int(self.width as i64)),
            ("suffix", Json::str(&self.suffix)),
            ("relative", Json::Bool(self.relative)),
            ("warm", Json::Bool(self.warm)),
        ])
    }
    pub fn from_json(j: &Json) -> Option<Variant> {
        Some(Variant {
            sched_seed: u64::from_str_radix(j.get("sched_seed")?.as_str()?, 16).ok()?,
            width: j.get("width")?.as_u64()? as usize,
            suffix: j.get("suffix")?.as_str()?.to_string(),
            relative: j.get("relative")?.as_bool()?,
            warm: j.get("warm")?.as_bool()?,
        })
    }
}

pub struct BuildOut {
    pub outcome: Outcome,
    pub tree: Tree,
    pub picks: usize,
    pub max_parked: usize,
    pub steps: u64,
}

pub fn build_variant(name: &str, text: &str, other: Option<&str>, component: bool, v: &Variant) -> BuildOut {
    let s = Scratch::with_suffix(&v.suffix);
    if v.warm {
        if let Some(o) = other {
            s.edit(name, o);
            let _ = build(&s, component, Plan::clean(v.sched_seed ^ 1), false, None);
        }
    }
    s.edit(name, text);
    let mut plan = Plan::clean(v.sched_seed);
    plan.width = v.width;
    let rel_base = if v.relative { s.root.parent().map(|p| p.to_path_buf()) } else { None };
    let r = build(&s, component, plan, false, rel_base.as_deref());
    BuildOut {
        outcome: r.outcome.clone(),
        tree: s.tree(),
        picks: r.picks,
        max_parked: r.max_parked,
        steps: (r.mutations + r.reads) as u64,
    }
}

/// Two builds disagree when their outcomes differ or, for successful builds, their output trees.
/// A failed build generates nothing; what an earlier (warm-up) build left behind is not its output.
fn differs(a: &BuildOut, b: &BuildOut) -> bool {
    a.outcome.tag() != b.outcome.tag() || (a.outcome == Outcome::Success && a.tree != b.tree)
}

/// Counts per class, not file names: names may depend on hidden process state (that is what
/// a violation of this property looks like) and the message has to replay exactly.
fn describe_diff(a: &Tree, b: &Tree) -> String {
    let d = diff_trees(a, b);
    let count = |c: &str| d.iter().filter(|(k, _)| *k == c).count();
    format!(
        "{} files differ in content, {} only in the first build, {} only in the second",
        count("stale-content"),
        count("extra"),
        count("missing")
    )
}

pub fn run_case(case: &Json) -> Result<(Option<(String, String)>, u64), String> {
    let name = case.get("theory_name").and_then(|x| x.as_str()).ok_or("c13: theory_name")?;
    let text = case.get("text").and_then(|x| x.as_str()).ok_or("c13: text")?;
    let other = case.get("other").and_then(|x| x.as_str());
    let component = case.get("build_type").and_then(|x| x.as_str()) == Some("component");
    let va = Variant::from_json(case.get("variant_a").ok_or("c13: variant_a")?).ok_or("c13: bad variant_a")?;
    let vb = Variant::from_json(case.get("variant_b").ok_or("c13: variant_b")?).ok_or("c13: bad variant_b")?;
    // Nondeterminism that comes from per-instance random state (std's RandomState) shows only with
    // some probability per pair of builds: the pair is re-run up to 24 times (a statistical replay;
    // the identity of the finding is its class and message, which name no run-dependent detail).
    let mut f = Fnv::new();
    for attempt in 0..24 {
        let a = build_variant(name, text, other, component, &va);
        let b = build_variant(name, text, other, component, &vb);
        if attempt == 0 {
            f.u64(tree_hash(&a.tree));
        }
        if differs(&a, &b) {
            let _detail = describe_diff(&b.tree, &a.tree);
            let msg = "two builds of the same source differ in their outcome or output files (module text, component sources, digests)".to_string();
            let mut f = Fnv::new();
            f.str(&msg);
            return Ok((Some(("nondeterministic-output".into(), msg)), f.finish()));
        }
    }
    Ok((None, f.finish()))
}

pub fn worker(args: &WorkerArgs, stats: &mut ShardStats) {
    let thorough = args.tier == "thorough";
    let theories = load_theories(thorough);
    stats.count("theories", theories.len() as u64);
    for p in ["scheduler_picks", "interleaved_section", "relative_paths", "warm_builds", "nested_dirs", "width_1", "width_all"] {
        stats.declare_probe(p);
    }
    stats.declare_fault("schedule_perturbation");
    stats.declare_fault("layout_perturbation");
    let reps = args.get_u64("reps", if thorough { 6 } else { 2 });
    let mut hashes: BTreeMap<String, String> = BTreeMap::new();
    for (ti, th) in theories.iter().enumerate() {
        for component in [false, true] {
            let canon = Variant::canonical();
            let a = build_variant(&th.name, &th.text, th.other.as_deref(), component, &canon);
            stats.steps += a.steps;
            if let Outcome::Panicked(_) = a.outcome {
                // C11's business; here only determinism of whatever happens is judged
                stats.count("panicking_theories", 1);
            }
            let key = format!("{}|{}", th.key, if component { "component" } else { "module" });
            hashes.insert(key, format!("{}:{:016x}", a.outcome.tag(), tree_hash(&a.tree)));
            for rep in 0..reps {
                let seed = derive_seed(args.seed, 1313 + args.shard, (ti as u64) * 64 + rep * 2 + component as u64);
                let mut rng = Rng::new(seed);
                let v = Variant::draw(&mut rng);
                stats.run_seed(seed);
                let b = build_variant(&th.name, &th.text, th.other.as_deref(), component, &v);
                stats.steps += b.steps;
                stats.probe_n("scheduler_picks", b.picks as u64);
                stats.fault("schedule_perturbation");
                stats.fault("layout_perturbation");
                if b.max_parked >= 2 {
                    stats.probe("interleaved_section");
                }
                if v.relative {
                    stats.probe("relative_paths");
                }
                if v.warm {
                    stats.probe("warm_builds");
                }
                if v.suffix.contains('/') {
                    stats.probe("nested_dirs");
                }
                if v.width == 1 {
                    stats.probe("width_1");
                }
                if v.width == 0 {
                    stats.probe("width_all");
                }
                if a.outcome == Outcome::Success && !a.tree.is_empty() {
                    let mut f = Fnv::new();
                    f.u64(tree_hash(&a.tree));
                    f.u64(v.sched_seed);
                    stats.nontrivial(f.finish());
                }
                if differs(&a, &b) {
                    let case = Json::obj(vec![
                        ("kind", Json::str("c13-pair")),
                        ("theory", Json::str(&th.key)),
                        ("theory_name", Json::str(&th.name)),
                        ("build_type", Json::str(if component { "component" } else { "module" })),
                        ("text", Json::str(&th.text)),
                        ("other", th.other.as_ref().map(|o| Json::str(o)).unwrap_or(Json::Null)),
                        ("variant_a", canon.to_json()),
                        ("variant_b", v.to_json()),
                    ]);
                    match run_case(&case) {
                        Ok((Some((class, message)), log_hash)) => {
                            if stats.violation(Violation {
                                property: "C13".into(),
                                class,
                                message,
                                seed,
                                run_index: ti as u64,
                                case,
                                log_hash,
                            }) {
                                return;
                            }
                        }
                        _ => stats
                            .diagnostics
                            .push(format!("C13: a difference on {} did not reproduce when the pair was re-run", th.key)),
                    }
                } else if stats.want_sample() && component && b.max_parked >= 2 {
                    stats.sample(Json::obj(vec![
                        ("theory", Json::str(&th.key)),
                        ("build_type", Json::str("component")),
                        ("variant", v.to_json()),
                        ("files", tree_listing(&b.tree)),
                    ]));
                }
            }
        }
    }
    let j = Json::Obj(hashes.into_iter().map(|(k, v)| (k, Json::Str(v))).collect());
    let _ = std::fs::create_dir_all(&args.out);
    let _ = std::fs::write(format!("{}/shard-{}.hashes.json", args.out, args.shard), j.to_string());
}
