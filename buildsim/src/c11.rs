//! C11: any input is answered by success or a well-formed diagnostic. The inputs are the fault
//! images a faulty storage / transport path produces from valid and invalid programs:
//! truncation at every char boundary, missing final newline, CRLF, lone CR, BOM, torn overwrite
//! (prefix of A + suffix of B), dropped / duplicated lines, multi-byte replacement, NUL.

use crate::harness::*;
use crate::sim::Plan;
use simcore::cli::{ShardStats, WorkerArgs};
use simcore::rng::derive_seed;
use simcore::{Fnv, Json, Rng, Violation};
use std::path::{Path, PathBuf};

pub struct Base {
    pub name: String,
    pub text: String,
}

fn collect_eql(dir: &Path, out: &mut Vec<PathBuf>) {
    let mut entries: Vec<_> = match std::fs::read_dir(dir) {
        Ok(rd) => rd.filter_map(|e| e.ok()).collect(),
        Err(_) => return,
    };
    entries.sort_by_key(|e| e.file_name());
    for e in entries {
        let p = e.path();
        if p.is_dir() {
            collect_eql(&p, out);
        } else if p.extension().map(|x| x == "eql").unwrap_or(false) {
            out.push(p);
        }
    }
}

pub fn repo_dir() -> PathBuf {
    PathBuf::from(std::env::var("VERIF_REPO").unwrap_or_else(|_| "/repo".into()))
}

pub fn load_bases() -> Vec<Base> {
    let mut files = Vec::new();
    collect_eql(&repo_dir().join("eqlog-test-eval/src"), &mut files);
    collect_eql(&repo_dir().join("eqlog-test-compile/error-test-source"), &mut files);
    let mut bases: Vec<Base> = Vec::new();
    for f in files {
        if let Ok(text) = std::fs::read_to_string(&f) {
            let rel = f.strip_prefix(repo_dir()).unwrap_or(&f).to_string_lossy().to_string();
            bases.push(Base { name: rel, text });
        }
    }
    // generated programs (the modelsim generator) and their single-token deletions
    for i in 0..24u64 {
        let mut rng = Rng::new(derive_seed(0xC11, 4242, i));
        let knobs = lang::gen::GenKnobs::draw(&mut rng);
        let p = lang::gen::gen_program(&mut rng, &knobs);
        let text = lang::print::program(&p);
        // deleting one token is what a dropped block in the middle of a line looks like
        let toks: Vec<(usize, usize)> = {
            let mut v = Vec::new();
            let mut start: Option<usize> = None;
            for (pos, ch) in text.char_indices() {
                if ch.is_whitespace() {
                    if let Some(s0) = start.take() {
                        v.push((s0, pos));
                    }
                } else if start.is_none() {
                    start = Some(pos);
                }
            }
            v
        };
        if i % 2 == 1 && !toks.is_empty() {
            for j in 0..3 {
                let (a, b) = toks[rng.usize_below(toks.len())];
                bases.push(Base {
                    name: format!("generated/{i}/minus-token-{j}"),
                    text: format!("{}{}", &text[..a], &text[b..]),
                });
            }
        }
        bases.push(Base {
            name: format!("generated/{i}"),
            text,
        });
    }
    for fam in load_families() {
        for (v, t) in fam.versions {
            bases.push(Base {
                name: format!("families/{}/{}", fam.name, v),
                text: t,
            });
        }
    }
    bases
}

/// A fault image of a base text, as explicit data.
#[derive(Clone, Debug)]
pub struct ImageSpec {
    pub base: usize,
    pub kind: &'static str,
    pub a: usize,
    pub b: usize,
}

pub const KINDS: &[&str] = &[
    "identity",
    "truncate",
    "strip_final_newline",
    "crlf_all",
    "crlf_subset",
    "lone_cr",
    "bom",
    "torn_overwrite",
    "drop_line",
    "dup_line",
    "multibyte",
    "nul",
    "unicode_newline",
    "block_zero",
    "block_swap",
    "block_dup",
    "tail_zero",
    "tabs",
    "comment_only_tail",
    "blank",
];

/// storage-block granularities for the block faults
const BLOCKS: [usize; 3] = [64, 512, 4096];

/// byte offset -> next char boundary at or after it
fn boundary_at_or_after(s: &str, mut i: usize) -> usize {
    i = i.min(s.len());
    while !s.is_char_boundary(i) {
        i += 1;
    }
    i
}

fn char_boundaries(s: &str) -> Vec<usize> {
    s.char_indices().map(|(i, _)| i).chain(std::iter::once(s.len())).collect()
}

/// Builds the image bytes (always valid UTF-8) or None if the spec does not apply.
pub fn make_image(bases: &[Base], spec: &ImageSpec) -> Option<String> {
    let text = &bases.get(spec.base)?.text;
    let lines: Vec<&str> = text.split_inclusive('\n').collect();
    Some(match spec.kind {
        "identity" => text.clone(),
        "truncate" => {
            let cb = char_boundaries(text);
            text[..*cb.get(spec.a)?].to_string()
        }
        "strip_final_newline" => text.strip_suffix('\n')?.to_string(),
        "crlf_all" => text.replace('\n', "\r\n"),
        "crlf_subset" => {
            // lines whose index has bit set in the seed a
            let mut rng = Rng::new(spec.a as u64);
            let mut out = String::new();
            for l in &lines {
                if l.ends_with('\n') && rng.chance(1, 2) {
                    out.push_str(&l[..l.len() - 1]);
                    out.push_str("\r\n");
                } else {
                    out.push_str(l);
                }
            }
            out
        }
        "lone_cr" => {
            let l = lines.get(spec.a)?;
            let mut out: String = lines[..spec.a].concat();
            if l.ends_with('\n') {
                out.push_str(&l[..l.len() - 1]);
                out.push('\r');
            } else {
                return None;
            }
            out.push_str(&lines[spec.a + 1..].concat());
            out
        }
        "bom" => format!("\u{feff}{text}"),
        "torn_overwrite" => {
            // prefix of this base up to line a + suffix of base b from the same byte offset on
            let other = &bases.get(spec.b)?.text;
            let cut: usize = lines.iter().take(spec.a).map(|l| l.len()).sum();
            let mut ocut = cut.min(other.len());
            while !other.is_char_boundary(ocut) {
                ocut += 1;
            }
            format!("{}{}", &text[..cut], &other[ocut..])
        }
        "drop_line" => {
            lines.get(spec.a)?;
            let mut v = lines.clone();
            v.remove(spec.a);
            v.concat()
        }
        "dup_line" => {
            let l = *lines.get(spec.a)?;
            let mut v = lines.clone();
            v.insert(spec.a, l);
            v.concat()
        }
        "multibyte" => {
            let cb = char_boundaries(text);
            let pos = *cb.get(spec.a)?;
            let ch = text[pos..].chars().next()?;
            if ch == '\n' {
                return None;
            }
            let rep = ["é", "→", "𝔸", "ß"][spec.b % 4];
            format!("{}{}{}", &text[..pos], rep, &text[pos + ch.len_utf8()..])
        }
        "nul" => {
            let cb = char_boundaries(text);
            let pos = *cb.get(spec.a)?;
            format!("{}\0{}", &text[..pos], &text[pos..])
        }
        // a line terminator that str::lines does not know (or a vertical tab / form feed) instead
        // of the '\n' of line a: NEL, LINE SEPARATOR, PARAGRAPH SEPARATOR, VT, FF
        "unicode_newline" => {
            let l = lines.get(spec.a)?;
            if !l.ends_with('\n') {
                return None;
            }
            let rep = ["\u{85}", "\u{2028}", "\u{2029}", "\u{0b}", "\u{0c}"][spec.b % 5];
            let mut out: String = lines[..spec.a].concat();
            out.push_str(&l[..l.len() - 1]);
            out.push_str(rep);
            out.push_str(&lines[spec.a + 1..].concat());
            out
        }
        // a storage block that was allocated but never written: NUL bytes in place of the data
        "block_zero" => {
            let bs = BLOCKS[spec.b % 3];
            let start = boundary_at_or_after(text, spec.a * bs);
            if start >= text.len() {
                return None;
            }
            let end = boundary_at_or_after(text, start + bs);
            format!("{}{}{}", &text[..start], "\0".repeat(end - start), &text[end..])
        }
        // two blocks written to each other's place
        "block_swap" => {
            let bs = BLOCKS[spec.b % 3];
            let s0 = boundary_at_or_after(text, spec.a * bs);
            let e0 = boundary_at_or_after(text, s0 + bs);
            let e1 = boundary_at_or_after(text, e0 + bs);
            if e0 >= text.len() || s0 >= e0 {
                return None;
            }
            format!("{}{}{}{}", &text[..s0], &text[e0..e1], &text[s0..e0], &text[e1..])
        }
        // a block written twice (a retried write that was not idempotent)
        "block_dup" => {
            let bs = BLOCKS[spec.b % 3];
            let s0 = boundary_at_or_after(text, spec.a * bs);
            let e0 = boundary_at_or_after(text, s0 + bs);
            if s0 >= text.len() {
                return None;
            }
            format!("{}{}{}", &text[..e0], &text[s0..e0], &text[e0..])
        }
        // the file was extended to its final length but only a prefix of the data arrived
        "tail_zero" => {
            let cb = char_boundaries(text);
            let pos = *cb.get(spec.a)?;
            format!("{}{}", &text[..pos], "\0".repeat(text.len() - pos))
        }
        // leading blanks of every line replaced by tabs
        "tabs" => {
            let mut out = String::new();
            for l in &lines {
                let body = l.trim_start_matches(' ');
                let n = l.len() - body.len();
                out.push_str(&"\t".repeat((n + 3) / 4));
                out.push_str(body);
            }
            out
        }
        // truncated, and the cut lies inside a comment that runs to the end of the file
        "comment_only_tail" => {
            let cb = char_boundaries(text);
            let pos = *cb.get(spec.a)?;
            format!("{}// cut", &text[..pos])
        }
        // nothing but blanks, newlines or a comment
        "blank" => ["", "\n", " ", "\n\n\n", "// nothing\n", "//", "\t\n", "\r\n", "\u{feff}"][spec.a % 9].to_string(),
        _ => return None,
    })
}

impl ImageSpec {
    pub fn to_json(&self, bases: &[Base], image: &str) -> Json {
        Json::obj(vec![
            ("kind", Json::str("c11-input")),
            ("base", Json::str(&bases[self.base].name)),
            ("fault", Json::str(self.kind)),
            ("a", Json::Int(self.a as i64)),
            ("b", Json::Int(self.b as i64)),
            ("text", Json::str(image)),
        ])
    }
}

/// Checks one input. Ok(fingerprint of the outcome) or Err((class, message)).
pub fn judge(text: &str) -> Result<(u64, &'static str), (String, String)> {
    let s = Scratch::new();
    s.edit("input", text);
    let r = build(&s, false, Plan::clean(0), false, None);
    let msg = match r.outcome {
        Outcome::Success => {
            let mut f = Fnv::new();
            f.str("ok");
            f.u64(tree_hash(&s.tree()));
            return Ok((f.finish(), "accepted"));
        }
        Outcome::Panicked(m) => return Err(("panic".into(), format!("compilation panicked: {m}"))),
        Outcome::Killed => return Err(("harness".into(), "killed without a kill plan".into())),
        // the scratch directory name is not part of the outcome
        Outcome::Failed(m) => m.replace(&s.root.to_string_lossy().to_string(), "<scratch>"),
    };
    let mut f = Fnv::new();
    f.str(&msg);
    let fp = f.finish();
    let lines: Vec<&str> = text.lines().collect();
    if !msg.starts_with("Error: ") {
        // not a compile diagnostic (e.g. an I/O error): nothing more is promised
        return Ok((fp, "other-error"));
    }
    let mut saw_location = false;
    let mut carets = 0;
    let mut pending_row: Option<usize> = None;
    // split on LF only: a CR at the end of an excerpt row belongs to the quoted input line
    for l in msg.split('\n') {
        let t = l.trim_start();
        if let Some(rest) = t.strip_prefix("--> ") {
            saw_location = true;
            let num = rest.rsplit(':').next().unwrap_or("");
            match num.parse::<usize>() {
                Ok(n) if n >= 1 && n <= lines.len().max(1) => {}
                _ => {
                    return Err((
                        "bad-line-number".into(),
                        format!("location line {l:?} names a line outside 1..={} of the input", lines.len()),
                    ))
                }
            }
            continue;
        }
        // excerpt rows: "<num> | <text>"; marker rows: "<pad> | ^^^"
        let digits: String = t.chars().take_while(|c| c.is_ascii_digit()).collect();
        if !digits.is_empty() {
            if let Some(rest) = t[digits.len()..].strip_prefix(" | ") {
                let n: usize = digits.parse().unwrap_or(0);
                let want = lines.get(n.wrapping_sub(1)).copied();
                if want != Some(rest) {
                    return Err((
                        "bad-excerpt".into(),
                        format!("excerpt row {l:?} is not line {n} of the input (which is {want:?})"),
                    ));
                }
                pending_row = Some(n);
                continue;
            }
        }
        if let Some(rest) = t.strip_prefix("| ") {
            if pending_row.is_some() && rest.contains('^') {
                carets += 1;
            }
            pending_row = None;
        }
    }
    // (no demand on caret markers: an end-of-file position on an empty last line has none)
    let _ = carets;
    Ok((fp, if saw_location { "located-error" } else { "error" }))
}

pub fn run_case(case: &Json) -> Result<(Option<(String, String)>, u64), String> {
    let text = case.get("text").and_then(|t| t.as_str()).ok_or("c11 case lacks text")?;
    match judge(text) {
        Ok((fp, _)) => Ok((None, fp)),
        Err((c, m)) if c == "harness" => Err(m),
        Err((c, m)) => {
            // findings under different fault kinds are kept apart
            let c = format!("{c}@{}", case.get("fault").and_then(|f| f.as_str()).unwrap_or("input"));
            let mut f = Fnv::new();
            f.str(text);
            f.str(&c);
            f.str(&m);
            Ok((Some((c, m)), f.finish()))
        }
    }
}

pub fn enumerate_specs(bases: &[Base], seed: u64, thorough: bool) -> Vec<ImageSpec> {
    let mut specs = Vec::new();
    for (bi, b) in bases.iter().enumerate() {
        let n_chars = b.text.chars().count();
        let n_lines = b.text.split_inclusive('\n').count();
        let mut rng = Rng::new(derive_seed(seed, 1100, bi as u64));
        let push = |specs: &mut Vec<ImageSpec>, kind: &'static str, a: usize, bb: usize| {
            specs.push(ImageSpec {
                base: bi,
                kind,
                a,
                b: bb,
            })
        };
        push(&mut specs, "identity", 0, 0);
        // truncation: every char boundary for small texts (exhaustive), sampled for large ones
        let exhaustive_limit = if thorough { 6000 } else { 1200 };
        if n_chars <= exhaustive_limit {
            for a in 0..n_chars {
                push(&mut specs, "truncate", a, 0);
            }
        } else {
            let n = if thorough { 1500 } else { 150 };
            for _ in 0..n {
                push(&mut specs, "truncate", rng.usize_below(n_chars), 0);
            }
        }
        push(&mut specs, "strip_final_newline", 0, 0);
        push(&mut specs, "crlf_all", 0, 0);
        push(&mut specs, "bom", 0, 0);
        for i in 0..(if thorough { 8 } else { 2 }) {
            push(&mut specs, "crlf_subset", (rng.next_u64() >> 16) as usize + i, 0);
        }
        let line_budget = if thorough { n_lines } else { n_lines.min(12) };
        let mut line_idx: Vec<usize> = (0..n_lines).collect();
        rng.shuffle(&mut line_idx);
        for &a in line_idx.iter().take(line_budget) {
            push(&mut specs, "lone_cr", a, 0);
            push(&mut specs, "drop_line", a, 0);
            push(&mut specs, "dup_line", a, 0);
            let other = rng.usize_below(bases.len());
            push(&mut specs, "torn_overwrite", a, other);
        }
        let n_mb = if thorough { 60 } else { 8 };
        for _ in 0..n_mb {
            push(&mut specs, "multibyte", rng.usize_below(n_chars.max(1)), rng.usize_below(4));
        }
        for _ in 0..(if thorough { 6 } else { 1 }) {
            push(&mut specs, "nul", rng.usize_below(n_chars.max(1)), 0);
        }
        // line terminators unknown to str::lines, block-level storage faults, layout
        for &a in line_idx.iter().take(if thorough { n_lines.min(40) } else { 3 }) {
            push(&mut specs, "unicode_newline", a, rng.usize_below(5));
        }
        for g in 0..3 {
            let n_blocks = b.text.len() / BLOCKS[g] + 1;
            for _ in 0..(if thorough { 6 } else { 1 }) {
                push(&mut specs, "block_zero", rng.usize_below(n_blocks), g);
                push(&mut specs, "block_swap", rng.usize_below(n_blocks), g);
                push(&mut specs, "block_dup", rng.usize_below(n_blocks), g);
            }
        }
        for _ in 0..(if thorough { 20 } else { 2 }) {
            push(&mut specs, "tail_zero", rng.usize_below(n_chars.max(1)), 0);
            push(&mut specs, "comment_only_tail", rng.usize_below(n_chars.max(1)), 0);
        }
        push(&mut specs, "tabs", 0, 0);
        if bi < 9 {
            push(&mut specs, "blank", bi, 0);
        }
    }
    specs
}

/// Shrinks a failing input by dropping whole lines while the class persists.
fn minimise(text: &str, class: &str) -> String {
    let lines: Vec<String> = text.split_inclusive('\n').map(|s| s.to_string()).collect();
    let mut budget = 150usize;
    let kept = simcore::minimize::ddmin(lines, &mut budget, &mut |ls| {
        matches!(judge(&ls.concat()), Err((c, _)) if c == class)
    });
    kept.concat()
}

pub fn worker(args: &WorkerArgs, stats: &mut ShardStats) {
    let thorough = args.tier == "thorough";
    let bases = load_bases();
    stats.count("base_texts", bases.len() as u64);
    for k in KINDS {
        stats.declare_fault(k);
    }
    for p in ["accepted", "located-error"] {
        stats.declare_probe(p);
    }
    let specs = enumerate_specs(&bases, args.seed, thorough);
    stats.count("images_total", specs.len() as u64);
    let max = args.get_u64("images", u64::MAX);
    for (i, spec) in specs.iter().enumerate() {
        if (i as u64) % args.nshards != args.shard || (i as u64) >= max {
            continue;
        }
        let image = match make_image(&bases, spec) {
            Some(t) => t,
            None => continue,
        };
        stats.run_seed(i as u64);
        stats.fault(spec.kind);
        stats.steps += 1;
        match judge(&image) {
            Ok((fp, tag)) => {
                stats.probe(tag);
                if spec.kind != "identity" {
                    stats.nontrivial(fp);
                }
                if stats.want_sample() && tag == "located-error" && image.len() < 400 {
                    stats.sample(spec.to_json(&bases, &image));
                }
            }
            Err((c, m)) if c == "harness" => stats.diagnostics.push(m),
            Err((class, _)) => {
                // one report per (class, fault kind) keeps e.g. truncation and CRLF findings apart
                let class_k = format!("{class}@{}", spec.kind);
                if stats.violations.iter().any(|v| v.class == class_k) {
                    continue;
                }
                let min_text = minimise(&image, &class);
                let case = spec.to_json(&bases, &min_text);
                if let Ok((Some((class2, message)), log_hash)) = run_case(&case) {
                    stats.violations.push(Violation {
                        property: "C11".into(),
                        class: class2,
                        message,
                        seed: args.seed,
                        run_index: i as u64,
                        case,
                        log_hash,
                    });
                    if stats.violations.len() >= 12 {
                        return;
                    }
                }
            }
        }
    }
}
