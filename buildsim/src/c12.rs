//! C12: incremental builds are never stale. Histories of edits, builds, killed builds, builds
//! with failing compiler / failing I/O over the versions of a theory family; after every
//! successful build the output trees must equal a clean build of the current source, and a
//! build directly after a successful build must not rewrite anything.

use crate::harness::*;
use crate::sim::{Plan, Tree};
use simcore::cli::{ShardStats, WorkerArgs};
use simcore::minimize::ddmin;
use simcore::rng::derive_seed;
use simcore::{Fnv, Json, Rng, Violation};
use std::collections::BTreeMap;

#[derive(Clone, Debug, PartialEq)]
pub enum HOp {
    Edit(String),
    Build(Plan),
}

#[derive(Clone, Debug)]
pub struct History {
    pub family: String,
    pub component: bool,
    pub ops: Vec<HOp>,
}

impl History {
    pub fn to_json(&self) -> Json {
        Json::obj(vec![
            ("kind", Json::str("c12-history")),
            ("family", Json::str(&self.family)),
            ("build_type", Json::str(if self.component { "component" } else { "module" })),
            (
                "ops",
                Json::Arr(
                    self.ops
                        .iter()
                        .map(|o| match o {
                            HOp::Edit(v) => Json::obj(vec![("edit", Json::str(v))]),
                            HOp::Build(p) => Json::obj(vec![("build", p.to_json())]),
                        })
                        .collect(),
                ),
            ),
        ])
    }
    pub fn from_json(j: &Json) -> Option<History> {
        let ops = j
            .get("ops")?
            .as_arr()?
            .iter()
            .map(|o| {
                if let Some(v) = o.get("edit") {
                    Some(HOp::Edit(v.as_str()?.to_string()))
                } else {
                    Some(HOp::Build(Plan::from_json(o.get("build")?)?))
                }
            })
            .collect::<Option<Vec<_>>>()?;
        Some(History {
            family: j.get("family")?.as_str()?.to_string(),
            component: j.get("build_type")?.as_str()? == "component",
            ops,
        })
    }
}

fn version_text<'a>(fam: &'a Family, v: &str) -> Option<&'a str> {
    fam.versions.iter().find(|(n, _)| n == v).map(|(_, t)| t.as_str())
}

fn mtimes(s: &Scratch) -> BTreeMap<String, std::time::SystemTime> {
    let mut out = BTreeMap::new();
    for k in s.tree().keys() {
        if let Ok(m) = std::fs::metadata(s.root.join(k)).and_then(|m| m.modified()) {
            out.insert(k.clone(), m);
        }
    }
    out
}

pub struct HistInfo {
    pub log_hash: u64,
    pub builds: usize,
    pub successes: usize,
    pub judged: usize,
    pub steps: u64,
    pub faults: Vec<&'static str>,
    pub final_tree_hash: u64,
}

/// Executes a history through the real kill path. Err((class, message)) is a violation.
pub fn exec_history(fams: &[Family], cache: &mut CleanCache, h: &History) -> Result<HistInfo, (String, String)> {
    let fam = fams.iter().find(|f| f.name == h.family).ok_or(("harness".to_string(), "unknown family".to_string()))?;
    let s = Scratch::new();
    let mut current: Option<String> = None;
    let mut log = Fnv::new();
    let mut info = HistInfo {
        log_hash: 0,
        builds: 0,
        successes: 0,
        judged: 0,
        steps: 0,
        faults: Vec::new(),
        final_tree_hash: 0,
    };
    // true when the previous op was a successful build (nothing changed since)
    let mut fresh_success = false;
    for (i, op) in h.ops.iter().enumerate() {
        match op {
            HOp::Edit(v) => {
                let text = version_text(fam, v).ok_or(("harness".to_string(), format!("unknown version {v}")))?;
                s.edit(&fam.name, text);
                current = Some(v.clone());
                fresh_success = false;
                log.str(&format!("edit {v}"));
            }
            HOp::Build(plan) => {
                let before = if fresh_success { Some(mtimes(&s)) } else { None };
                let debug = std::env::var("VERIF_DEBUG").is_ok();
                let r = build(&s, h.component, plan.clone(), debug, None);
                if debug {
                    eprintln!("--- op {i}: build -> {} ({} mutations)", r.outcome.tag(), r.mutations);
                    for l in &r.log_lines {
                        eprintln!("    {l}");
                    }
                }
                info.builds += 1;
                info.steps += (r.mutations + r.reads) as u64;
                info.faults.extend(r.faults_fired.iter().copied());
                log.u64(r.log_hash);
                log.str(r.outcome.tag());
                if let Outcome::Success = r.outcome {
                    info.successes += 1;
                    let v = current.clone().ok_or(("harness".to_string(), "build before edit".to_string()))?;
                    let text = version_text(fam, &v).unwrap();
                    let want = cache
                        .get(&fam.name, text, h.component)
                        .ok_or(("harness".to_string(), format!("build succeeded on {v} but a clean build of it fails")))?;
                    let got = s.tree();
                    let d = diff_trees(&got, &want);
                    info.judged += 1;
                    if let Some((class, path)) = d.first() {
                        return Err((
                            class.to_string(),
                            format!(
                                "op {i}: build of {}/{v} ({}) reported success but {path} is {class} w.r.t. a clean build; all differences: {:?}",
                                fam.name,
                                if h.component { "component" } else { "module" },
                                d
                            ),
                        ));
                    }
                    if let Some(before) = before {
                        if r.non_mkdir_mutations > 0 {
                            return Err((
                                "rewrite-on-noop".to_string(),
                                format!("op {i}: nothing changed since the last successful build but the build performed {} mutating calls", r.non_mkdir_mutations),
                            ));
                        }
                        let after = mtimes(&s);
                        if before != after {
                            return Err(("rewrite-on-noop".to_string(), format!("op {i}: modification times changed on a no-op build")));
                        }
                    }
                    fresh_success = true;
                } else {
                    fresh_success = false;
                }
            }
        }
    }
    info.final_tree_hash = tree_hash(&s.tree());
    log.u64(info.final_tree_hash);
    info.log_hash = log.finish();
    Ok(info)
}

pub fn run_case(fams: &[Family], cache: &mut CleanCache, case: &Json) -> Result<(Option<(String, String)>, u64), String> {
    let h = History::from_json(case).ok_or("bad c12 history")?;
    match exec_history(fams, cache, &h) {
        Ok(info) => Ok((None, info.log_hash)),
        Err((c, m)) if c == "harness" => Err(m),
        Err((c, m)) => {
            let mut f = Fnv::new();
            f.str(&case.to_string());
            f.str(&c);
            f.str(&m);
            Ok((Some((c, m)), f.finish()))
        }
    }
}

fn minimise(fams: &[Family], cache: &mut CleanCache, h: &History, class: &str) -> History {
    let mut budget = 60usize;
    let fam_name = h.family.clone();
    let component = h.component;
    let ops = ddmin(h.ops.clone(), &mut budget, &mut |ops| {
        let cand = History {
            family: fam_name.clone(),
            component,
            ops: ops.to_vec(),
        };
        matches!(exec_history(fams, cache, &cand), Err((c, _)) if c == class)
    });
    let mut best = History {
        family: fam_name.clone(),
        component,
        ops,
    };
    // simplify plans: torn -> plain kill, schedule -> sequential
    for i in 0..best.ops.len() {
        if let HOp::Build(p) = &best.ops[i] {
            let mut alts: Vec<Plan> = Vec::new();
            if p.torn != 0 {
                let mut q = p.clone();
                q.torn = 0;
                alts.push(q);
            }
            if p.width != 1 {
                let mut q = p.clone();
                q.width = 1;
                q.sched_seed = 0;
                alts.push(q);
            }
            for q in alts {
                if budget == 0 {
                    break;
                }
                budget -= 1;
                let mut cand = best.clone();
                cand.ops[i] = HOp::Build(q);
                if matches!(exec_history(fams, cache, &cand), Err((c, _)) if c == class) {
                    best = cand;
                }
            }
        }
    }
    best
}

fn report(stats: &mut ShardStats, fams: &[Family], cache: &mut CleanCache, h: &History, seed: u64, idx: u64) -> bool {
    match exec_history(fams, cache, h) {
        Err((class, _)) if class != "harness" => {
            if stats.has_class("C12", &class) {
                return false;
            }
            let m = minimise(fams, cache, h, &class);
            let case = m.to_json();
            match run_case(fams, cache, &case) {
                Ok((Some((class2, message)), log_hash)) => stats.violation(Violation {
                    property: "C12".into(),
                    class: class2,
                    message,
                    seed,
                    run_index: idx,
                    case,
                    log_hash,
                }),
                other => {
                    stats.diagnostics.push(format!("C12 minimised history lost its violation: {:?}", other.map(|x| x.0)));
                    false
                }
            }
        }
        Err((_, m)) => {
            stats.diagnostics.push(format!("harness error in history: {m}"));
            false
        }
        Ok(_) => {
            stats
                .diagnostics
                .push(format!("crash-image enumeration found a difference that the real kill path does not reproduce: {}", h.to_json().to_string()));
            false
        }
    }
}

/// One enumeration unit: all crash points of Build(vB) after Build(vA).
#[derive(Clone, Debug)]
pub struct Unit {
    pub family: usize,
    pub va: Option<String>,
    pub vb: String,
    pub component: bool,
    pub sched_seed: u64,
    pub width: usize,
}

fn well_formed(fams: &[Family], cache: &mut CleanCache, f: usize, v: &str) -> bool {
    let fam = &fams[f];
    cache.get(&fam.name, version_text(fam, v).unwrap(), false).is_some()
}

pub fn make_units(fams: &[Family], cache: &mut CleanCache, seed: u64, thorough: bool) -> Vec<Unit> {
    let mut units = Vec::new();
    for (fi, fam) in fams.iter().enumerate() {
        let names: Vec<String> = fam.versions.iter().map(|(n, _)| n.clone()).collect();
        let wf: Vec<String> = names.iter().filter(|n| well_formed(fams, cache, fi, n)).cloned().collect();
        if wf.len() < 2 {
            // a hand-written family that does not compile is a mistake of the harness, a generated
            // one that the compiler rejects simply contributes nothing
            assert!(fam.name.starts_with("gen"), "family {} has fewer than two well-formed versions", fam.name);
            continue;
        }
        let mut pairs: Vec<(Option<String>, String)> = Vec::new();
        for a in &wf {
            for b in &names {
                if a != b {
                    pairs.push((Some(a.clone()), b.clone()));
                }
            }
        }
        let mut rng = Rng::new(derive_seed(seed, 1200 + fi as u64, 0));
        rng.shuffle(&mut pairs);
        if !thorough {
            pairs.truncate(5);
        }
        // first build ever, killed
        for b in wf.iter().take(if thorough { wf.len() } else { 1 }) {
            pairs.push((None, b.clone()));
        }
        for (pi, (a, b)) in pairs.iter().enumerate() {
            units.push(Unit {
                family: fi,
                va: a.clone(),
                vb: b.clone(),
                component: false,
                sched_seed: 0,
                width: 1,
            });
            let scheds: Vec<(u64, usize)> = if thorough {
                vec![(1, 0), (2, 0), (3, 2), (4, 1)]
            } else {
                vec![(1, 0), (2, 2)]
            };
            for (si, (s, w)) in scheds.iter().enumerate() {
                units.push(Unit {
                    family: fi,
                    va: a.clone(),
                    vb: b.clone(),
                    component: true,
                    sched_seed: derive_seed(seed, 1300 + fi as u64, (pi * 16 + si) as u64) ^ s,
                    width: *w,
                });
            }
        }
    }
    units
}

fn crash_states(images: &[crate::sim::Image], torn_variants: bool) -> Vec<(usize, u8, Tree)> {
    let mut out = Vec::new();
    for img in images {
        out.push((img.index, 0u8, img.tree.clone()));
        if torn_variants && (img.op.kind == "write" || img.op.kind == "rustc") {
            let mut t1 = img.tree.clone();
            t1.insert(img.op.rel_path.clone(), Vec::new());
            out.push((img.index, 1, t1));
            if img.op.contents.len() >= 2 {
                let mut t2 = img.tree.clone();
                t2.insert(img.op.rel_path.clone(), img.op.contents[..img.op.contents.len() / 2].to_vec());
                out.push((img.index, 2, t2));
            }
        }
    }
    out
}

pub fn run_unit(stats: &mut ShardStats, fams: &[Family], cache: &mut CleanCache, u: &Unit, seed: u64, idx: u64, thorough: bool) -> bool {
    let fam = &fams[u.family];
    let names: Vec<String> = fam.versions.iter().map(|(n, _)| n.clone()).collect();
    let tree_a: Tree = match &u.va {
        Some(a) => cache.get(&fam.name, version_text(fam, a).unwrap(), u.component).expect("vA is well-formed"),
        None => Tree::new(),
    };
    // the faulted build, run once with crash-image recording
    let s = Scratch::new();
    s.load(&tree_a);
    s.edit(&fam.name, version_text(fam, &u.vb).unwrap());
    let mut plan = Plan::clean(u.sched_seed);
    plan.width = u.width;
    plan.snapshot = true;
    let r = build(&s, u.component, plan.clone(), false, None);
    stats.steps += (r.mutations + r.reads) as u64;
    stats.count("faulted_builds", 1);
    stats.probe_n("scheduler_picks", r.picks as u64);
    if r.max_parked >= 2 {
        stats.probe("interleaved_section");
    }
    if let Outcome::Panicked(m) = &r.outcome {
        stats.diagnostics.push(format!("fault-free build of {}/{} panicked: {m}", fam.name, u.vb));
        return false;
    }
    let mut states: Vec<(String, Plan, Tree)> = Vec::new();
    for (k, torn, tree) in crash_states(&r.images, true) {
        let mut p = plan.clone();
        p.snapshot = false;
        p.kill_at = Some(k);
        p.torn = torn;
        states.push((format!("kill@{k}/torn{torn}"), p, tree));
    }
    // the build that ran to its end (success or ordinary failure) is one more predecessor state
    {
        let mut p = plan.clone();
        p.snapshot = false;
        states.push(("completed".into(), p, s.tree()));
    }
    // compiler failures: real runs
    if u.component {
        for j in 0..r.rustc_calls {
            for leave in 0..2u8 {
                if !thorough && (j + leave as usize) % 2 == 1 {
                    continue;
                }
                let s2 = Scratch::new();
                s2.load(&tree_a);
                s2.edit(&fam.name, version_text(fam, &u.vb).unwrap());
                let mut p = plan.clone();
                p.snapshot = false;
                p.rustc_fail_at = Some((j, leave));
                p.skip_after_error = (j + leave as usize) % 2 == 0;
                let r2 = build(&s2, u.component, p.clone(), false, None);
                for f in &r2.faults_fired {
                    stats.fault(f);
                }
                states.push((format!("rustc-fail@{j}/leave{leave}"), p, s2.tree()));
            }
        }
    }
    // I/O errors: real runs (sampled in the quick tier)
    {
        let mut rng = Rng::new(derive_seed(seed, 1400, idx));
        let n = if thorough { r.mutations } else { r.mutations.min(2) };
        for t in 0..n {
            let k = if thorough { t } else { rng.usize_below(r.mutations.max(1)) };
            let code = rng.below(3) as u8;
            let s2 = Scratch::new();
            s2.load(&tree_a);
            s2.edit(&fam.name, version_text(fam, &u.vb).unwrap());
            let mut p = plan.clone();
            p.snapshot = false;
            p.io_error_at = Some((k, code));
            let r2 = build(&s2, u.component, p.clone(), false, None);
            for f in &r2.faults_fired {
                stats.fault(f);
            }
            if let Outcome::Panicked(m) = &r2.outcome {
                stats.count("panic_after_io_error", 1);
                if stats.diagnostics.len() < 5 {
                    stats.diagnostics.push(format!("note: build panicked after injected io error: {m}"));
                }
            }
            states.push((format!("io-error@{k}/{code}"), p, s2.tree()));
        }
        if r.reads > 0 {
            let rr = rng.usize_below(r.reads);
            let s2 = Scratch::new();
            s2.load(&tree_a);
            s2.edit(&fam.name, version_text(fam, &u.vb).unwrap());
            let mut p = plan.clone();
            p.snapshot = false;
            p.read_error_at = Some(rr);
            let r2 = build(&s2, u.component, p.clone(), false, None);
            for f in &r2.faults_fired {
                stats.fault(f);
            }
            states.push((format!("read-error@{rr}"), p, s2.tree()));
        }
    }
    // targets of the final build
    let mut targets: Vec<String> = Vec::new();
    if let Some(a) = &u.va {
        targets.push(a.clone());
    }
    if well_formed(fams, cache, u.family, &u.vb) {
        targets.push(u.vb.clone());
    }
    if thorough || u.va.is_none() {
        if let Some(d) = names
            .iter()
            .find(|n| Some(*n) != u.va.as_ref() && **n != u.vb && well_formed(fams, cache, u.family, n))
        {
            targets.push(d.clone());
        }
    }
    for (label, p, tree) in &states {
        if label.starts_with("kill@") {
            stats.fault(if p.torn == 0 { "kill" } else { "torn_then_kill" });
        }
        for vc in &targets {
            let s3 = Scratch::new();
            s3.load(tree);
            s3.edit(&fam.name, version_text(fam, vc).unwrap());
            let fin = Plan::clean(derive_seed(u.sched_seed, 7, 0));
            let r3 = build(&s3, u.component, fin.clone(), false, None);
            stats.run_seed(u.sched_seed);
            stats.steps += (r3.mutations + r3.reads) as u64;
            let mut h = History {
                family: fam.name.clone(),
                component: u.component,
                ops: Vec::new(),
            };
            if let Some(a) = &u.va {
                h.ops.push(HOp::Edit(a.clone()));
                h.ops.push(HOp::Build(Plan::clean(0)));
            }
            h.ops.push(HOp::Edit(u.vb.clone()));
            h.ops.push(HOp::Build(p.clone()));
            h.ops.push(HOp::Edit(vc.clone()));
            h.ops.push(HOp::Build(fin.clone()));
            h.ops.push(HOp::Build(fin.clone()));
            match &r3.outcome {
                Outcome::Success => {
                    let got = s3.tree();
                    let want = cache.get(&fam.name, version_text(fam, vc).unwrap(), u.component).unwrap();
                    let bad = !diff_trees(&got, &want).is_empty();
                    // no-op clause
                    let r4 = build(&s3, u.component, fin.clone(), false, None);
                    let noop_bad = r4.outcome == Outcome::Success && r4.non_mkdir_mutations > 0;
                    if label.starts_with("kill@") && p.kill_at.unwrap_or(0) > 0 {
                        let mut f = Fnv::new();
                        f.u64(tree_hash(tree));
                        f.str(vc);
                        stats.nontrivial(f.finish());
                        if stats.want_sample() && p.kill_at.unwrap_or(0) > 2 {
                            stats.sample(h.to_json());
                        }
                    }
                    if label.starts_with("kill@") && tree.keys().any(|k| k.ends_with(".rlib")) && p.kill_at.is_some() {
                        stats.probe("kill_with_rlib_present");
                    }
                    if bad || noop_bad {
                        if report(stats, fams, cache, &h, u.sched_seed, idx) {
                            return true;
                        }
                    }
                }
                Outcome::Failed(m) => {
                    stats.count("final_build_failed_on_wellformed_source", 1);
                    if stats.diagnostics.len() < 3 && !label.starts_with("io") {
                        // not a violation of C12 (which speaks about builds that report success)
                        stats.count("note_final_build_failed", 1);
                        let _ = m;
                    }
                }
                Outcome::Panicked(m) => {
                    stats.count("final_build_panicked", 1);
                    let _ = m;
                }
                Outcome::Killed => unreachable!(),
            }
        }
    }
    false
}

/// Seeded longer histories through the real kill path (thorough tier and a small quick sample).
pub fn random_history(fams: &[Family], cache: &mut CleanCache, rng: &mut Rng) -> History {
    // a family with at least one well-formed version (generated families may have none)
    let mut fi = rng.usize_below(fams.len());
    for _ in 0..fams.len() {
        if fams[fi].versions.iter().any(|(_, t)| cache.get(&fams[fi].name, t, false).is_some()) {
            break;
        }
        fi = (fi + 1) % fams.len();
    }
    let fam = &fams[fi];
    let component = rng.chance(2, 3);
    let n = rng.range(3, 12) as usize;
    let mut ops = Vec::new();
    let mut faults = 0;
    ops.push(HOp::Edit(rng.pick(&fam.versions).0.clone()));
    for _ in 0..n {
        if rng.chance(2, 5) {
            ops.push(HOp::Edit(rng.pick(&fam.versions).0.clone()));
        } else {
            let mut p = Plan::clean(rng.next_u64());
            p.width = *rng.pick(&[0usize, 0, 1, 2, 4]);
            p.skip_after_error = rng.chance(1, 2);
            if faults < 4 && rng.chance(1, 2) {
                faults += 1;
                match rng.below(4) {
                    0 | 1 => {
                        p.kill_at = Some(rng.usize_below(40));
                        p.torn = rng.below(3) as u8;
                    }
                    2 => p.rustc_fail_at = Some((rng.usize_below(10), rng.below(2) as u8)),
                    _ => p.io_error_at = Some((rng.usize_below(30), rng.below(3) as u8)),
                }
            }
            ops.push(HOp::Build(p));
        }
    }
    // end on a well-formed version and two clean builds so that something is judged
    let wf: Vec<&(String, String)> = fam
        .versions
        .iter()
        .filter(|(_, t)| cache.get(&fam.name, t, false).is_some())
        .collect();
    assert!(!wf.is_empty(), "family {} has no well-formed version", fam.name);
    ops.push(HOp::Edit(rng.pick(&wf).0.clone()));
    ops.push(HOp::Build(Plan::clean(rng.next_u64())));
    ops.push(HOp::Build(Plan::clean(rng.next_u64())));
    History {
        family: fam.name.clone(),
        component,
        ops,
    }
}

/// Validation of the kill model: the same build is killed (a) in-process by the unwinding panic
/// the simulator uses and (b) in a child process by abort() at the same seam call (no unwinding,
/// no destructors, every thread gone at once, as with SIGKILL); the surviving trees must be equal.
fn validate_kill_model(stats: &mut ShardStats, fams: &[Family], cache: &mut CleanCache, seed: u64, n: u64, shard: u64) {
    let exe = match std::env::current_exe() {
        Ok(e) => e,
        Err(_) => return,
    };
    for i in 0..n {
        let mut rng = Rng::new(derive_seed(seed, 1500 + shard, i));
        let fam = &fams[rng.usize_below(fams.len())];
        let wf: Vec<&(String, String)> = fam.versions.iter().filter(|(_, t)| cache.get(&fam.name, t, true).is_some()).collect();
        if wf.len() < 2 {
            continue;
        }
        let a = rng.pick(&wf);
        let b = rng.pick(&wf);
        let tree_a = cache.get(&fam.name, &a.1, true).unwrap();
        let mut plan = Plan::clean(rng.next_u64());
        plan.width = *rng.pick(&[0usize, 1, 2]);
        plan.kill_at = Some(rng.usize_below(30));
        plan.torn = rng.below(3) as u8;
        // (a) simulated
        let s1 = Scratch::new();
        s1.load(&tree_a);
        s1.edit(&fam.name, &b.1);
        let r1 = build(&s1, true, plan.clone(), false, None);
        if r1.outcome != Outcome::Killed {
            continue;
        }
        // (b) real abrupt death in a child process
        let s2 = Scratch::new();
        s2.load(&tree_a);
        s2.edit(&fam.name, &b.1);
        let st = std::process::Command::new(&exe)
            .arg("childbuild")
            .arg(&s2.root)
            .arg("component")
            .arg(plan.to_json().to_string())
            .env("VERIF_HARD_KILL", "1")
            .stdout(std::process::Stdio::null())
            .stderr(std::process::Stdio::null())
            .status();
        stats.probe("hard_kill_children");
        match st {
            Ok(st) if !st.success() => {
                if s1.tree() != s2.tree() {
                    stats.diagnostics.push(format!(
                        "kill model: after a kill before mutation {:?} (torn {}) of {}/{} -> {} the tree left by abort() in a child differs from the simulated one: {:?}",
                        plan.kill_at,
                        plan.torn,
                        fam.name,
                        a.0,
                        b.0,
                        diff_trees(&s2.tree(), &s1.tree())
                    ));
                } else {
                    stats.probe("hard_kill_trees_equal");
                }
            }
            _ => stats.diagnostics.push("kill model: the child did not die although the simulated build was killed".into()),
        }
    }
}

pub fn worker(args: &WorkerArgs, stats: &mut ShardStats) {
    let thorough = args.tier == "thorough";
    let fams = load_families();
    let mut cache = CleanCache::new();
    for f in ["kill", "torn_then_kill", "rustc_fail_no_output", "rustc_fail_partial_output", "io_error", "read_error"] {
        stats.declare_fault(f);
    }
    for p in ["scheduler_picks", "interleaved_section", "kill_with_rlib_present", "random_histories"] {
        stats.declare_probe(p);
    }
    stats.declare_probe("hard_kill_children");
    stats.declare_probe("hard_kill_trees_equal");
    validate_kill_model(stats, &fams, &mut cache, args.seed, args.get_u64("hardkills", if thorough { 40 } else { 4 }), args.shard);
    let units = make_units(&fams, &mut cache, args.seed, thorough);
    stats.count("units_total", units.len() as u64);
    let max_units = args.get_u64("units", u64::MAX);
    for (i, u) in units.iter().enumerate() {
        if (i as u64) % args.nshards != args.shard || (i as u64) >= max_units {
            continue;
        }
        if run_unit(stats, &fams, &mut cache, u, args.seed, i as u64, thorough) {
            return;
        }
    }
    // seeded longer histories
    let n_random = args.get_u64("random", if thorough { 4000 } else { 160 });
    let mut idx = args.shard;
    while idx < n_random {
        let seed = derive_seed(args.seed, 1212, idx);
        let mut rng = Rng::new(seed);
        let h = random_history(&fams, &mut cache, &mut rng);
        stats.run_seed(seed);
        stats.probe("random_histories");
        match exec_history(&fams, &mut cache, &h) {
            Ok(info) => {
                stats.steps += info.steps;
                for f in &info.faults {
                    stats.fault(match *f {
                        "torn_write_then_kill" | "partial_rlib_then_kill" => "torn_then_kill",
                        other => other,
                    });
                }
                if info.judged >= 1 && !info.faults.is_empty() {
                    stats.nontrivial(info.final_tree_hash ^ info.log_hash);
                }
            }
            Err((c, m)) if c == "harness" => stats.diagnostics.push(m),
            Err(_) => {
                if report(stats, &fams, &mut cache, &h, seed, idx) {
                    return;
                }
            }
        }
        idx += args.nshards;
    }
}
